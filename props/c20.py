"""C20 - SRTM30 elevation mosaics are seamless; tiles are downloaded only on a miss.

Simulated system: typhon.topography with a per-run cache directory
(`_data_path`), a fake network behind `typhon.topography.urllib` that serves
each tile as a zip of a synthetic <NAME>.DEM and can fail (URLError at open,
error after k body bytes), and a download log.  Two configurations:
  io   - real get_tile/download_tile, 57.6 MB tile files in the scratch cache
         (low volume): decides the cache/download history part;
  fast - get_tile serves lazily synthesised tiles whose pixel value encodes the
         global row/column (so every output cell names its source pixel),
         download_tile is a counter: decides the mosaic arithmetic at volume.
"""
import io
import os
import shutil
import urllib.error
import warnings
import zipfile

import numpy as np

import concurrent.futures as _cf

from sim.kernel import Sim, make_policy, StepCap, Deadlock
from sim.linepreempt import LinePreempt, periodic_points
from sim.executors import (SimPoolBase, SimThreadPool, SimProcessPool,
                           sim_as_completed, sim_wait)
from sim.runner import new_result, scratch_root
from sim.seams import patched, import_typhon, fresh_dir, ProcessState
from sim import digest_of

PROPERTY_ID = "C20"
LEVEL = "exploration"
RULE = (
    "one case = one seeded history of 2-6 requests (elevation / get_tiles / "
    "get_native_grids / get_tile) against one tile cache: rectangles aligned "
    "and unaligned with the 30-arc-second grid, thinner than a cell, inside one "
    "tile, across a meridional or zonal tile border, at a 4-tile corner, "
    "touching a border exactly, at +-180 degrees and at the northern/southern "
    "edge; cache cold, warm or pre-populated; in the io configuration network "
    "faults (URLError at open, error after k body bytes) followed by retries. "
    "Non-trivial = an elevation request that is unaligned or touches/crosses a "
    "tile border, or a request preceded by a download fault or a cache hit. "
    "Distinct = distinct (history digest, outcome digest) pairs.")
ASSUMPTIONS = [
    "the rectangle space is sampled by a border-biased generator, not enumerated",
    "faults during ZipFile.extractall are not injected (recovery from a "
    "half-extracted tile is not promised by the property)",
    "in the fast configuration get_tile/download_tile are harness functions "
    "(as the property's observe_at prescribes); the real ones run in the io "
    "configuration only",
    "'covers the rectangle' is checked with a tolerance of 1e-9 degrees",
]
COMPONENTS = {
    "real": ["typhon.topography.SRTM30 (elevation, get_tiles, get_native_grids, "
             "get_grids, get_bounds; get_tile + download_tile in the io "
             "configuration)", "zipfile, numpy.fromfile, scratch cache directory"],
    "stub": ["urllib.request.urlopen (fake network)", "_data_path (per-run "
             "cache directory)", "get_tile/download_tile in the fast "
             "configuration (lazy synthetic tiles, counter)"],
}
DEFAULTS = {
    "quick": {"budget_s": 45, "chunk": 4, "per_run_wall": 300, "minimise_s": 120},
    "thorough": {"budget_s": 900, "chunk": 10, "per_run_wall": 300,
                 "minimise_s": 400},
}
REQUIRED_PROBES = ["crosses_lon_border", "crosses_lat_border", "four_tile_corner",
                   "touches_border_exactly", "unaligned", "thinner_than_cell",
                   "at_dateline", "warm_cache_hit", "cold_download",
                   "download_fault_then_retry", "native_grids_of_tile"]

_T = {}
H, W = 6000, 4800
DLAT, DLON = 50.0 / H, 40.0 / W
LAT_EDGES = [90.0, 40.0, -10.0, -60.0]
LON_EDGES = [-180.0 + 40.0 * k for k in range(10)]
ENC = 50000


def setup():
    # whatever typhon.topography resolves at *import* time must not reach the
    # user's real cache (state shared by all runs): the process environment
    # points to a scratch directory that is emptied before every run
    _T["import_time_cache"] = os.path.join(scratch_root(), f"c20-import-{os.getpid():08d}")
    os.environ["TYPHON_DATA_PATH"] = _T["import_time_cache"]
    import_typhon()
    import typhon.topography as tmod
    _T.update(tmod=tmod, SRTM30=tmod.SRTM30, tiles={t[0]: t for t in tmod.SRTM30._tiles})
    _T["state"] = ProcessState(tmod, tmod.SRTM30)


def tile_origin(name):
    _, lat_min, lon_min, lat_max, lon_max = _T["tiles"][name]
    return int(round((90.0 - lat_max) / DLAT)), int(round((lon_min + 180.0) / DLON))


class LazyTile:
    """Behaves like the (6000, 4800) tile array for boolean-mask indexing;
    pixel (r, c) holds ENC * global_row + global_col."""
    shape = (H, W)

    def __init__(self, name):
        self.name = name
        self.r0, self.c0 = tile_origin(name)

    def __getitem__(self, mask):
        mask = np.asarray(mask)
        if mask.dtype != bool or mask.shape != (H, W):
            raise IndexError("LazyTile supports full boolean masks only")
        rows = np.flatnonzero(mask.any(axis=1))
        cols = np.flatnonzero(mask.any(axis=0))
        sub = mask[np.ix_(rows, cols)]
        vals = (ENC * (self.r0 + rows)[:, None] + (self.c0 + cols)[None, :]).astype(np.float64)
        return vals[sub]

    def ravel(self):
        raise NotImplementedError


def io_pixel(name, r, c):
    k = list(_T["tiles"]).index(name)
    return (r * 7 + c * 13 + k * 101) % 30011 - 5


_BASE = {}


def io_tile_bytes(name):
    if "base" not in _BASE:
        r = np.arange(H, dtype=np.int64)[:, None] * 7
        c = np.arange(W, dtype=np.int64)[None, :] * 13
        _BASE["base"] = r + c
    k = list(_T["tiles"]).index(name)
    arr = ((_BASE["base"] + k * 101) % 30011 - 5).astype(">i2")
    bio = io.BytesIO()
    with zipfile.ZipFile(bio, "w", zipfile.ZIP_STORED) as z:
        z.writestr((name + ".dem").upper(), arr.tobytes())
    return bio.getvalue()


# ------------------------------------------------------------------ workload
def gen_rect(tape):
    kind = tape.pick(["interior", "lon_border", "lat_border", "corner", "touch",
                      "dateline", "edge", "thin", "interior", "degenerate"], "rkind")
    r = {"kind": kind}
    # anchor in units of cells relative to a tile edge
    lat_e = tape.choice(len(LAT_EDGES), "late")
    lon_e = tape.choice(len(LON_EDGES), "lone")
    r["lat_e"], r["lon_e"] = lat_e, lon_e
    r["aligned"] = tape.flag("aligned", 1, 3)
    r["fr"] = [tape.choice(1000, "f%d" % i) for i in range(4)]   # sub-cell fractions
    r["h"] = 1 + tape.choice(12, "h")      # extent in cells
    r["w"] = 1 + tape.choice(12, "w")
    r["off"] = [tape.choice(3000, "olat"), tape.choice(2500, "olon")]
    return r


def resolve_rect(r):
    """-> (lat_min, lon_min, lat_max, lon_max) within 60S..90N, -180..180."""
    kind = r["kind"]
    fr = [0.0 if r["aligned"] else f / 1000.0 for f in r["fr"]]
    lat_edge = LAT_EDGES[r["lat_e"]]
    lon_edge = LON_EDGES[r["lon_e"]]
    h, w = r["h"], r["w"]
    # default: interior of the tile south-east of (lat_edge, lon_edge)
    if lat_edge <= -60.0:
        lat_edge = -10.0
    if lon_edge >= 180.0:
        lon_edge = 140.0
    top = lat_edge - (10 + r["off"][0]) * DLAT
    left = lon_edge + (10 + r["off"][1]) * DLON
    if kind == "lon_border":
        left = lon_edge - (w // 2 + 1) * DLON if lon_edge > -180.0 else left
    elif kind == "lat_border":
        top = lat_edge + (h // 2 + 1) * DLAT if lat_edge < 90.0 else top
    elif kind == "corner":
        if lon_edge > -180.0:
            left = lon_edge - (w // 2 + 1) * DLON
        if lat_edge < 90.0:
            top = lat_edge + (h // 2 + 1) * DLAT
    elif kind == "touch":
        # one side exactly on a tile border
        top = lat_edge
        fr[0] = 0.0
    elif kind == "dateline":
        if r["lon_e"] % 2:
            left = -180.0
            fr[1] = 0.0
        else:
            left = 180.0 - w * DLON
            fr[3] = 0.0
    elif kind == "edge":
        if r["lat_e"] % 2:
            top = 90.0
            fr[0] = 0.0
        else:
            top = -60.0 + h * DLAT
            fr[2] = 0.0
    if kind == "degenerate":
        # a rectangle without area: a point, or a transect along a parallel or
        # a meridian, strictly inside cells (never on a grid line)
        f0 = (50 + r["fr"][0] % 900) / 1000.0
        f1 = (50 + r["fr"][1] % 900) / 1000.0
        lat0 = top - f0 * DLAT
        lon0 = left + f1 * DLON
        shape = r["fr"][2] % 3
        lat_lo = lat0 - (h * DLAT if shape == 2 else 0.0)
        lon_hi = lon0 + (w * DLON if shape == 1 else 0.0)
        return (float(max(-60.0 + 0.3 * DLAT, lat_lo)), float(lon0), float(lat0),
                float(min(180.0 - 0.3 * DLON, lon_hi)))
    lat_max = top - fr[0] * DLAT
    lon_min = left + fr[1] * DLON
    lat_min = top - h * DLAT + fr[2] * DLAT
    lon_max = left + w * DLON - fr[3] * DLON
    if kind == "thin":
        lat_min = lat_max - 0.3 * DLAT
        lon_max = lon_min + 0.3 * DLON
    lat_max = min(90.0, lat_max)
    lat_min = max(-60.0, lat_min)
    lon_min = max(-180.0, lon_min)
    lon_max = min(180.0, lon_max)
    if lat_min >= lat_max:
        lat_min = lat_max - 0.5 * DLAT
        if lat_min < -60.0:
            lat_min, lat_max = -60.0, -60.0 + 0.5 * DLAT
    if lon_min >= lon_max:
        lon_min = lon_max - 0.5 * DLON
        if lon_min < -180.0:
            lon_min, lon_max = -180.0, -180.0 + 0.5 * DLON
    return float(lat_min), float(lon_min), float(lat_max), float(lon_max)


def gen_workload(tape):
    w = {}
    w["config"] = tape.pick(["fast", "fast", "fast", "fast", "io"], "config")
    ops = []
    n = tape.count(2, 6, "nops", (2, 3)) if w["config"] == "fast" else tape.count(2, 4, "nops", (1, 2))
    for _ in range(n):
        kinds = ["elevation", "elevation", "elevation", "get_tiles", "native_grids"]
        if w["config"] == "io":
            kinds = ["elevation", "get_tile", "get_tile", "elevation"]
        o = {"op": tape.pick(kinds, "op")}
        if o["op"] in ("elevation", "get_tiles"):
            o["rect"] = gen_rect(tape)
            if w["config"] == "io":
                # keep io requests inside few tiles: interior / one border
                o["rect"]["kind"] = tape.pick(["interior", "lon_border", "touch"], "iokind")
                o["rect"]["lat_e"] = 1
                o["rect"]["lon_e"] = 4 + tape.choice(2, "iolon")
            # before this request another process (or the user) puts tiles
            # the request needs into the shared cache directory
            o["external_fill"] = tape.flag("external_fill", 1, 5)
        elif o["op"] in ("native_grids", "get_tile"):
            o["tile"] = tape.choice(27, "tile") if w["config"] == "fast" else 12 + tape.choice(2, "iotile")
        if w["config"] == "io":
            o["net"] = tape.pick(["ok", "ok", "urlerror", "body_error", "ok", "emfile"], "net")
            o["net_k"] = tape.choice(5000, "netk")
        ops.append(o)
    w["ops"] = ops
    w["prepopulate"] = tape.flag("prepopulate", 1, 3) if w["config"] == "io" else False
    # how the cache directory is found: preset module attribute, or resolved by
    # typhon itself from the environment on the first access of the process
    w["datapath_via"] = tape.pick(["preset", "preset", "TYPHON_DATA_PATH",
                                   "XDG_CACHE_HOME", "both"], "dpv")
    # between two requests the resolved directory is forgotten - as in a child
    # process that inherits the environment and resolves it again
    w["resolve_again"] = tape.flag("resolve_again", 1, 3)
    # two caller threads on a completely warm cache: no download may happen
    w["two_callers"] = w["config"] == "fast" and tape.flag("two_callers", 1, 5)
    w["line_stride"] = 5 + tape.choice(30, "linestride") if w["two_callers"] else 0
    w["store_stride"] = 1 + tape.choice(3, "storestride") if w["two_callers"] else 0
    return w


# ------------------------------------------------------------------ network
class FakeNet:
    def __init__(self):
        self.log = []           # (tile, outcome)
        self.mode = "ok"
        self.k = 0

    class _Body:
        def __init__(self, data, fail_after):
            self.bio = io.BytesIO(data)
            self.fail_after = fail_after
            self.sent = 0

        def read(self, n=-1):
            if self.fail_after is not None and self.sent >= self.fail_after:
                raise ConnectionResetError(104, "injected: connection reset by peer")
            if self.fail_after is not None and n is not None and n > 0:
                n = min(n, self.fail_after - self.sent) or 1
            b = self.bio.read(n)
            self.sent += len(b)
            return b

        def close(self):
            pass

    def urlopen(self, url, *a, **kw):
        name = url.rsplit("/", 1)[1][:-len(".dem.zip")]
        if self.mode == "urlerror":
            self.log.append((name, "urlerror"))
            self.mode = "ok"
            raise urllib.error.URLError("injected: network unreachable")
        data = io_tile_bytes(name)
        if self.mode == "body_error":
            self.log.append((name, "body_error"))
            self.mode = "ok"
            return FakeNet._Body(data, 1 + self.k * 10000)
        self.log.append((name, "ok"))
        return FakeNet._Body(data, None)


class _NpFault:
    """numpy as typhon.topography sees it: `fromfile` can fail once with
    EMFILE (too many open files) when it opens a tile that is in the cache."""

    def __init__(self):
        self.armed = False
        self.fired = False

    def fromfile(self, file, *a, **kw):
        if self.armed and os.path.exists(str(file)):
            self.armed = False
            self.fired = True
            raise OSError(24, "injected EMFILE opening a cached tile", str(file))
        return np.fromfile(file, *a, **kw)

    def __getattr__(self, name):
        return getattr(np, name)


class _UrllibProxy:
    def __init__(self, net):
        self.request = net
        self.error = urllib.error


def _viol(sig, msg, extra=None):
    return {"signature": sig, "message": msg, "extra": extra}


def expected_tiles(lat_min, lon_min, lat_max, lon_max):
    out = []
    for name, la0, lo0, la1, lo1 in _T["SRTM30"]._tiles:
        if max(lat_min, la0) < min(lat_max, la1) and max(lon_min, lo0) < min(lon_max, lo1):
            out.append(name)
    return out


# ------------------------------------------------------------------- the run
def run_one(tape, only=None):
    res = new_result()
    shutil.rmtree(_T["import_time_cache"], ignore_errors=True)
    _T["state"].restore()       # every run starts from a fresh interpreter state
    w = gen_workload(tape)
    tmod, SRTM30 = _T["tmod"], _T["SRTM30"]
    root = fresh_dir(scratch_root(), "c20")
    env = {}
    if w["datapath_via"] in ("TYPHON_DATA_PATH", "both"):
        env["TYPHON_DATA_PATH"] = os.path.join(root, "data")
        cache = os.path.join(root, "data", "topography")
        os.makedirs(env["TYPHON_DATA_PATH"])
        if w["datapath_via"] == "both":
            # documented: XDG_CACHE_HOME is consulted only if TYPHON_DATA_PATH
            # is not set
            env["XDG_CACHE_HOME"] = os.path.join(root, "xdg-not-used")
    elif w["datapath_via"] == "XDG_CACHE_HOME":
        env["XDG_CACHE_HOME"] = cache = os.path.join(root, "xdg")
    else:
        cache = os.path.join(root, "cache")
        os.makedirs(cache)
    V, probes, outcomes = [], {}, []
    faults = {}
    nontrivial = 0
    net = FakeNet()
    npfault = _NpFault()
    fast_log = []

    def probe(k):
        probes[k] = probes.get(k, 0) + 1

    def fast_get_tile(name):
        # as SRTM30.get_tile: the cache directory is the one typhon resolves
        dem_file = os.path.join(tmod._get_data_path(), (name + ".dem").upper())
        if not os.path.exists(dem_file):
            fast_download(name)
        return LazyTile(name)

    def fast_download(name):
        fast_log.append(name)
        open(os.path.join(tmod._get_data_path(), (name + ".dem").upper()), "wb").close()

    def listing():
        return set(os.listdir(cache)) if os.path.isdir(cache) else set()

    if w["datapath_via"] == "preset":
        seams = [(tmod, "_data_path", cache)]
    else:
        probe("cache_directory_resolved_by_typhon")
        seams = [(tmod, "_data_path", None), (tmod, "environ", env)]
    # typhon.topography has no concurrency today. Should it ever fetch tiles
    # in a pool, the pool must be the simulator's: route the usual names
    # (module-level imports in topography and concurrent.futures itself).
    for mod in (tmod, _cf):
        for name, fake in (("ThreadPoolExecutor", SimThreadPool),
                           ("ProcessPoolExecutor", SimProcessPool),
                           ("as_completed", sim_as_completed), ("wait", sim_wait)):
            if mod is _cf or hasattr(mod, name):
                seams.append((mod, name, fake))
    policy = make_policy(tape, allow=("random", "sticky"))
    sim = Sim(tape, policy, step_cap=20000)
    SimPoolBase.sim, SimPoolBase.registry = sim, []
    if w["config"] == "fast":
        seams += [(SRTM30, "get_tile", staticmethod(fast_get_tile)),
                  (SRTM30, "download_tile", staticmethod(fast_download))]
    else:
        seams += [(tmod, "urllib", _UrllibProxy(net)), (tmod, "np", npfault)]
    try:
        with patched(*seams), warnings.catch_warnings():
            warnings.simplefilter("ignore")
            if w["prepopulate"]:
                name = list(_T["tiles"])[12]
                os.makedirs(cache, exist_ok=True)
                with zipfile.ZipFile(io.BytesIO(io_tile_bytes(name))) as z:
                    z.extractall(cache)
            if w["two_callers"]:
                os.makedirs(cache, exist_ok=True)
                for name in _T["tiles"]:
                    open(os.path.join(cache, (name + ".dem").upper()), "wb").close()
                probe("two_caller_threads_on_warm_cache")
                sim.line_preempt = LinePreempt(
                    sim, [tmod],
                    periodic_points(1 + w["line_stride"] % 7, w["line_stride"], 300),
                    only="caller",
                    store_points=periodic_points(1, w["store_stride"], 300))
            state = {"had_fault": False, "nontrivial": 0}

            def main():
                if not w["two_callers"]:
                    return run_ops(range(len(w["ops"])))
                a = sim.spawn("caller0", run_ops, range(0, len(w["ops"]), 2))
                b = sim.spawn("caller1", run_ops, range(1, len(w["ops"]), 2))
                sim.block_until(lambda: a.done and b.done, "join")
                for t in (a, b):
                    if t.exc is not None:
                        raise t.exc

            def run_ops(which):
                for oi in which:
                    o = w["ops"][oi]
                    if w["two_callers"]:
                        sim.yield_(f"op{oi}")
                    elif w["resolve_again"] and oi and w["datapath_via"] != "preset":
                        tmod._data_path = None
                        probe("cache_directory_resolved_again")
                    if o.get("external_fill") and "rect" in o and not w["two_callers"]:
                        os.makedirs(cache, exist_ok=True)
                        added = 0
                        for name in expected_tiles(*resolve_rect(o["rect"])):
                            dem = os.path.join(cache, (name + ".dem").upper())
                            if not os.path.exists(dem):
                                if w["config"] == "fast":
                                    open(dem, "wb").close()
                                else:
                                    with zipfile.ZipFile(
                                            io.BytesIO(io_tile_bytes(name))) as z:
                                        z.extractall(cache)
                                added += 1
                        if added:
                            probe("tiles_added_to_the_cache_from_outside")
                    present_before = listing()
                    log_before = len(net.log) + len(fast_log)
                    if w["config"] == "io":
                        net.mode, net.k = o["net"], o["net_k"]
                        if o["net"] == "emfile":
                            net.mode = "ok"
                            npfault.armed, npfault.fired = True, False
                    try:
                        state["nontrivial"] += _do_op(
                            o, w, V, probe, SRTM30, cache, net, fast_log,
                            present_before, log_before, faults, state["had_fault"],
                            outcomes, npfault)
                    except AssertionError:
                        raise
                    except Exception as e:  # noqa: typhon raised where nothing was injected
                        V.append(_viol(f"C20/{o['op']}/exception/{type(e).__name__}",
                                       f"{o['op']}: {type(e).__name__}: {e}"[:300]))
                    if w["config"] == "io" and net.log[log_before:] and \
                            net.log[-1][1] != "ok":
                        state["had_fault"] = True
                    net.mode = "ok"
                    npfault.armed = False

            try:
                sim.run(main)
            except StepCap as e:
                V.append(_viol("C20/no-termination", str(e)))
            except Deadlock as e:
                V.append(_viol("C20/deadlock", str(e)))
            nontrivial = state["nontrivial"]
    finally:
        SimPoolBase.sim = None
        SimPoolBase.registry = None
        shutil.rmtree(root, ignore_errors=True)
    seen, uniq = set(), []
    for v in V:
        if v["signature"] not in seen:
            seen.add(v["signature"])
            uniq.append(v)
    res["violations"] = uniq
    res["probes"] = probes
    res["faults"] = faults
    res["executions"] = len(w["ops"])
    res["nontrivial"] = nontrivial > 0
    res["wdigest"] = digest_of(w)
    res["edigest"] = digest_of(outcomes)
    res["kinds"] = [f"config={w['config']}"]
    res["counters"] = {"requests": len(w["ops"]), "downloads": len(net.log) + len(fast_log)}
    res["sample"] = {
        "config": w["config"], "prepopulate": w["prepopulate"],
        "ops": [dict({k: v for k, v in o.items() if k != "rect"},
                     rect=[round(x, 6) for x in resolve_rect(o["rect"])] if "rect" in o else None,
                     rect_kind=o["rect"]["kind"] if "rect" in o else None)
                for o in w["ops"]],
        "downloads": [list(x) for x in net.log] + fast_log,
    }
    return res


def _do_op(o, w, V, probe, SRTM30, cache, net, fast_log, present_before,
           log_before, faults, had_fault, outcomes, npfault=None):
    kind = o["op"]
    names = list(_T["tiles"])
    nontrivial = 0
    if kind == "native_grids":
        name = names[o["tile"]]
        probe("native_grids_of_tile")
        la, lo = SRTM30.get_native_grids(*SRTM30.get_bounds(name))
        gla, glo = SRTM30.get_grids(name)
        ok = la.shape == gla.shape and lo.shape == glo.shape and \
            np.allclose(la, gla, atol=1e-9, rtol=0) and np.allclose(lo, glo, atol=1e-9, rtol=0)
        outcomes.append(("ng", name, bool(ok)))
        if not ok:
            V.append(_viol("C20/native-grids-of-tile",
                           f"get_native_grids(bounds of {name}) has shapes "
                           f"{la.shape}/{lo.shape}, get_grids {gla.shape}/{glo.shape}"))
        # the caller may edit the grids it got (e.g. shift centres to cell
        # edges for plotting); later requests must not see that
        for arr in (la, lo, gla, glo):
            try:
                arr += 0.25
            except (ValueError, TypeError):
                pass
        probe("caller_edits_returned_grids")
        return 0
    if kind == "get_tiles":
        rect = resolve_rect(o["rect"])
        got = SRTM30.get_tiles(*rect)
        exp = expected_tiles(*rect)
        outcomes.append(("gt", exp))
        if sorted(got) != sorted(exp):
            V.append(_viol("C20/get_tiles",
                           f"get_tiles{rect} = {got}, tiles intersecting the "
                           f"rectangle: {exp}"))
        return 0
    # ---- requests that touch the cache ------------------------------------------
    if kind == "get_tile":
        name = names[o["tile"]]
        needed = [name]
        rect = None
    else:
        rect = resolve_rect(o["rect"])
        # tiles the *returned block* needs are checked below via the pixel oracle;
        # for the download rule use the tiles intersecting the rectangle
        needed = expected_tiles(*rect)
    exc = None
    out = None
    try:
        if kind == "get_tile":
            out = SRTM30.get_tile(name)
        else:
            out = SRTM30.elevation(*rect)
    except (urllib.error.URLError, ConnectionResetError, OSError, zipfile.BadZipFile) as e:
        exc = e
    except Exception as e:  # noqa
        V.append(_viol(f"C20/{kind}/exception/{type(e).__name__}",
                       f"{kind}{rect or name}: {e}"[:300]))
        outcomes.append((kind, "exception"))
        return 0
    downloads = (net.log + [(n, "ok") for n in fast_log])[log_before:] \
        if w["config"] == "io" else [(n, "ok") for n in fast_log[log_before - len(net.log):]]
    # ---- download rule -----------------------------------------------------------
    dl_names = [d[0] for d in downloads]
    if len(set(dl_names)) != len(dl_names):
        V.append(_viol("C20/download-twice",
                       f"{kind}: tile(s) downloaded more than once in one request: {dl_names}"))
    for n_ in dl_names:
        if (n_ + ".dem").upper() in present_before:
            V.append(_viol("C20/download-on-warm-cache",
                           f"{kind}: {n_} downloaded although {(n_ + '.dem').upper()} "
                           f"was in the cache directory"))
    if any((n_ + ".dem").upper() in present_before for n_ in needed):
        probe("warm_cache_hit")
    if dl_names:
        probe("cold_download")
    if npfault is not None and npfault.fired:
        # opening a cached tile failed once: the request may fail - the
        # download rule above was judged all the same
        npfault.fired = False
        faults["emfile_opening_cached_tile"] = faults.get("emfile_opening_cached_tile", 0) + 1
        outcomes.append((kind, "emfile"))
        return 1
    injected = [d for d in downloads if d[1] != "ok"]
    if injected:
        faults[injected[0][1]] = faults.get(injected[0][1], 0) + 1
        if exc is None:
            V.append(_viol("C20/download-fault-swallowed",
                           f"{kind}: network fault {injected[0]} but the request "
                           f"returned normally"))
        outcomes.append((kind, "net-fault"))
        return 1
    if exc is not None:
        V.append(_viol(f"C20/{kind}/unexpected-error/{type(exc).__name__}",
                       f"{kind}{rect or name}: {exc}"[:300]))
        return 0
    if had_fault:
        probe("download_fault_then_retry")
        nontrivial = 1
    if exc is None and kind != "get_tile":
        missing = [n_ for n_ in needed if (n_ + ".dem").upper() not in present_before
                   and n_ not in dl_names]
        if missing and w["config"] == "io":
            V.append(_viol("C20/no-download-on-miss",
                           f"{kind}: {missing} neither cached nor downloaded"))
    if kind == "get_tile":
        r, c = 17, 4003
        ok = out.shape == (H, W) and int(out[r, c]) == io_pixel(name, r, c) \
            and int(out[H - 1, 0]) == io_pixel(name, H - 1, 0)
        outcomes.append(("tile", name, bool(ok)))
        if not ok:
            V.append(_viol("C20/get_tile/content", f"{name}: wrong tile content"))
        # the caller may do what it likes with the array it got (e.g. mask the
        # ocean in place): later requests must still see the stored pixels
        try:
            out[...] = -777
            probe("caller_edits_returned_tile")
        except (ValueError, TypeError):
            pass
        return nontrivial
    # ---- geometry of the block -----------------------------------------------------
    lats, lons, z = out
    lat_min, lon_min, lat_max, lon_max = rect
    rk = o["rect"]["kind"]
    if not o["rect"]["aligned"]:
        probe("unaligned")
    if rk == "thin":
        probe("thinner_than_cell")
    if rk == "degenerate":
        probe("rectangle_without_area")
    if rk == "dateline":
        probe("at_dateline")
    if rk == "touch":
        probe("touches_border_exactly")
    exp_tiles = expected_tiles(*rect)
    lon_cross = len({_T["tiles"][t][2] for t in exp_tiles}) > 1
    lat_cross = len({_T["tiles"][t][1] for t in exp_tiles}) > 1
    if lon_cross:
        probe("crosses_lon_border")
    if lat_cross:
        probe("crosses_lat_border")
    if lon_cross and lat_cross:
        probe("four_tile_corner")
    if not o["rect"]["aligned"] or lon_cross or lat_cross or rk in ("touch", "dateline", "edge"):
        nontrivial = 1
    desc = f"elevation{tuple(round(x, 7) for x in rect)} [{rk}]"
    tol = 1e-9
    if lats.size == 0 or lons.size == 0:
        V.append(_viol("C20/empty-block", f"{desc}: empty grid {lats.shape}x{lons.shape}"))
        outcomes.append(("el", "empty"))
        return nontrivial
    # cell centres, consecutive
    I = (90.0 - lats) / DLAT - 0.5
    J = (lons + 180.0) / DLON - 0.5
    Ii, Ji = np.rint(I).astype(np.int64), np.rint(J).astype(np.int64)
    if np.abs(I - Ii).max() > 1e-6 or np.abs(J - Ji).max() > 1e-6:
        V.append(_viol("C20/not-cell-centres", f"{desc}: grid values are not SRTM30 cell centres"))
        return nontrivial
    if (lats.size > 1 and not (np.diff(Ii) == 1).all()) or \
            (lons.size > 1 and not (np.diff(Ji) == 1).all()):
        V.append(_viol("C20/not-consecutive",
                       f"{desc}: rows {Ii[:5]}.. cols {Ji[:5]}.. are not consecutive "
                       f"(latitude descending, longitude ascending)"))
        return nontrivial
    top, bottom = lats.max() + DLAT / 2, lats.min() - DLAT / 2
    left, right = lons.min() - DLON / 2, lons.max() + DLON / 2
    outcomes.append(("el", int(Ii[0]), int(Ii[-1]), int(Ji[0]), int(Ji[-1])))
    if top < lat_max - tol or bottom > lat_min + tol or left > lon_min + tol or right < lon_max - tol:
        V.append(_viol(
            "C20/block-does-not-cover-rectangle",
            f"{desc}: block spans lat [{bottom:.7f}, {top:.7f}] lon [{left:.7f}, "
            f"{right:.7f}]"))
        return nontrivial
    # an overhang of exactly one cell (+-1e-9 deg) can be the float image of an
    # edge that lies on a grid line: border case, not verdict-relevant
    if top - lat_max >= DLAT + tol or lat_min - bottom >= DLAT + tol or \
            lon_min - left >= DLON + tol or right - lon_max >= DLON + tol:
        V.append(_viol(
            "C20/block-overhangs-by-a-cell",
            f"{desc}: block spans lat [{bottom:.7f}, {top:.7f}] lon [{left:.7f}, "
            f"{right:.7f}] - at least one full cell beyond the rectangle"))
        return nontrivial
    if z.shape != (lats.size, lons.size):
        V.append(_viol("C20/shape", f"{desc}: data {z.shape} for grid {lats.size}x{lons.size}"))
        return nontrivial
    # entry [i, j] = pixel centred at (lat[i], lon[j])
    if w["config"] == "fast":
        want = (ENC * Ii[:, None] + Ji[None, :]).astype(np.float64)
    else:
        want = np.empty(z.shape)
        for a, gi in enumerate(Ii):
            for b, gj in enumerate(Ji):
                name = next(t for t in _T["tiles"] if tile_origin(t)[0] <= gi < tile_origin(t)[0] + H
                            and tile_origin(t)[1] <= gj < tile_origin(t)[1] + W)
                r0, c0 = tile_origin(name)
                want[a, b] = io_pixel(name, gi - r0, gj - c0)
    if not np.array_equal(z, want):
        bad = np.argwhere(z != want)
        i, j = bad[0]
        V.append(_viol(
            "C20/wrong-pixel",
            f"{desc}: {len(bad)} of {z.size} cells wrong, e.g. [{i},{j}] "
            f"(lat {lats[i]:.6f}, lon {lons[j]:.6f}) holds {z[i, j]}, expected {want[i, j]}"))
    return nontrivial
