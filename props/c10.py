"""C10 - parallel map/imap/collect/icollect/align: once per file, in file order.

Simulated system: the caller task plus the per-file tasks of typhon's worker
pool (fakes of ThreadPoolExecutor / ProcessPoolExecutor, sim/executors.py).
The harness-supplied reader and user function contain yield points and virtual
latencies, so tasks overlap and complete in tape-chosen order.  Oracle: the
sequential program `[func(read(f)) for f in files]` (written here, independent
of typhon) plus exactly-once, in-flight bound, exception and warning rules.
"""
import os
import pickle
import re
import shutil
import warnings
from datetime import datetime, timedelta

from sim.kernel import Sim, make_policy, StepCap, Deadlock
from sim.executors import SimPoolBase, SimThreadPool, SimProcessPool
from sim.runner import new_result, scratch_root
from sim.seams import patched, NoGC, import_typhon, fresh_dir
from sim.seams import deterministic_tempnames
from sim.fsseam import SimLocalFS, HOOK as _FS_HOOK
from sim import digest_of

PROPERTY_ID = "C10"
LEVEL = "exploration"
RULE = (
    "one case = one seeded simulated run: a tape-drawn fileset (0-8 files), "
    "operation (map/imap/collect/icollect/align), pool kind, worker count, "
    "option set, reader/func fault set and a tape-decided interleaving of the "
    "per-file tasks. Non-trivial = at some scheduling decision >= 2 tasks were "
    "runnable, or >= 1 injected fault fired. Distinct = distinct (workload "
    "digest, global event-order digest) pairs among the non-trivial runs.")
ASSUMPTIONS = [
    "concurrent.futures pools are modelled (FIFO start, <= max_workers running, "
    "Executor.map inherited from the stdlib, pickle boundary for process pools); "
    "behaviour of the real pools beyond that model is not observed",
    "pre-emption happens at intercepted pool operations and inside the harness "
    "reader/function, not between arbitrary bytecodes of typhon",
    "files are selected by find() over non-boundary periods or passed via files=; "
    "find()'s own correctness is C01's subject",
]
COMPONENTS = {
    "real": ["typhon.files.fileset (map, imap, collect, icollect, align, "
             "_call_map_function, find, read)", "typhon.files.handlers.common",
             "local file system on the scratch directory", "pickle"],
    "stub": ["ThreadPoolExecutor/ProcessPoolExecutor (sim.executors)",
             "gc.collect", "file reader / user function (harness, instrumented)"],
}
DEFAULTS = {
    "quick": {"budget_s": 40, "chunk": 60, "per_run_wall": 120, "minimise_s": 40},
    "thorough": {"budget_s": 900, "chunk": 200, "per_run_wall": 120,
                 "minimise_s": 240},
}
REQUIRED_PROBES = ["later_finished_before_earlier", "read_error", "func_error",
                   "align_secondary_from_cache", "imap_waited_on_full_queue"]

_T = {}
ST = None     # per-run state, reachable from the (pickled-by-name) callbacks


def setup():
    import_typhon()
    import typhon.files.fileset as fsmod
    from typhon.files import FileSet
    from typhon.files.handlers.common import FileHandler, FileInfo
    _T.update(fsmod=fsmod, FileSet=FileSet, FileHandler=FileHandler,
              FileInfo=FileInfo)
    from sim.seams import typhon_state
    _T["state"] = typhon_state()


class InjectedRead(Exception):
    """Marker for the failures the harness reader injects."""


class InjectedReadError(InjectedRead, OSError):
    pass


class InjectedKeyError(InjectedRead, KeyError):
    """e.g. a requested field the file lacks"""


class InjectedEOFError(InjectedRead, EOFError):
    """e.g. a truncated compressed file"""


READ_EXC = {"OSError": lambda key: InjectedReadError(5, f"injected EIO reading {key}"),
            "KeyError": lambda key: InjectedKeyError(f"injected: no field in {key}"),
            "EOFError": lambda key: InjectedEOFError(f"injected: {key} ends early")}


class InjectedFuncError(ValueError):
    pass


class State:
    def __init__(self, sim, tape, w):
        self.sim = sim
        self.tape = tape
        self.w = w
        self.reads = {}
        self.func_calls = {}
        self.fired = {}

    def fire(self, kind):
        self.fired[kind] = self.fired.get(kind, 0) + 1


ROOT = [""]


PATHKEY = {}      # absolute path -> key, filled when the files are created


def _key(path):
    p = str(path)
    if p in PATHKEY:
        return PATHKEY[p]
    rel = p[len(ROOT[0]):].lstrip("/")
    return rel.split("/")[0][:1] + ":" + os.path.basename(p)


def _stall(st, what, key):
    """Yield points / virtual latency inside reader and func."""
    sim = st.sim
    plan = st.w["stalls"].get(what + key)
    if plan is None:
        return
    for kind, amount in plan:
        if kind == "y":
            for k in range(amount):
                sim.yield_(f"{what}{key}.{k}")
        else:
            st.fire("slow_io")
            sim.sleep(amount, f"{what}{key}.io")


def reader(file_info, tag=None):
    st = ST
    with open(file_info.path, "rb") as f:
        key = f.read().decode("ascii", "replace")
    if key[:2] not in ("a:", "b:"):
        key = _key(file_info.path)
    st.reads[key] = st.reads.get(key, 0) + 1
    st.sim.event("read-start", key)
    _stall(st, "r", key)
    if key in st.w["fail_read"]:
        st.fire("read_error")
        st.sim.event("read-fail", key)
        raise READ_EXC[st.w.get("read_exc", "OSError")](key)
    st.sim.event("read-end", key)
    return {"file": key, "tag": tag}


def out_writer(data, file_info):
    st = ST
    st.sim.yield_("out-writer")
    with open(file_info.path, "wb") as f:
        pickle.dump(_norm(_plain(data)), f, protocol=4)
    st.sim.yield_("out-writer:done")


def user_func(*args, **kwargs):
    st = ST
    # identify the file(s) this call is about
    keys = _keys_of(args)
    key = "+".join(keys)
    st.func_calls[key] = st.func_calls.get(key, 0) + 1
    st.sim.event("func-start", key)
    _stall(st, "f", keys[0])
    if keys[0] in st.w["fail_func"]:
        st.fire("func_error")
        st.sim.event("func-fail", key)
        raise InjectedFuncError(f"injected failure in func for {key}")
    st.sim.event("func-end", key)
    if keys[0] in st.w["func_none"]:
        return None
    return {"args": _plain(args), "kwargs": dict(kwargs)}


def _keys_of(args):
    FileInfo = _T["FileInfo"]
    for a in reversed(args):
        if isinstance(a, FileInfo):
            return [_key(a.path)]
        if isinstance(a, (list, tuple)) and a and isinstance(a[0], FileInfo):
            return [_key(x.path) for x in a]
    for a in reversed(args):
        if isinstance(a, dict) and "file" in a:
            return [a["file"]]
        if isinstance(a, (list, tuple)) and a and isinstance(a[0], dict):
            return [x["file"] for x in a]
    return ["?"]


def _plain(x):
    FileInfo = _T["FileInfo"]
    if isinstance(x, FileInfo):
        return ("info", _key(x.path), [str(t) for t in x.times])
    if isinstance(x, (list, tuple)):
        return [_plain(y) for y in x]
    if isinstance(x, dict):
        return {k: _plain(v) for k, v in x.items()}
    return x


# ------------------------------------------------------------------ workload
BASE = datetime(2018, 3, 1)


def gen_workload(tape):
    w = {}
    w["op"] = tape.pick(["imap", "map", "icollect", "collect", "align"], "op")
    w["n"] = tape.count(1, 8, "n", (3, 4))
    w["layout"] = tape.pick(["flat", "daily", "daily_hm"], "layout")
    # a compression suffix: every read goes through typhon's transparent
    # decompression (the handler then sees a temporary copy)
    w["ext"] = tape.pick([".dat", ".dat", ".dat.gz"], "ext")
    w["gap_h"] = tape.pick([1, 1, 7, 30], "gap")      # hours between files
    if w["layout"] == "daily_hm":
        w["gap_h"] = tape.pick([24, 24, 30], "gap_hm")   # the same hh:mm every day
    w["worker_type"] = tape.pick(["thread", "process"], "wtype")
    w["max_workers"] = tape.pick([2, 1, 3, 4, None, 6, 8], "workers")
    n = w["n"]
    opts = {}
    if w["op"] in ("map", "imap"):
        opts["on_content"] = not tape.flag("on_content=False", 1, 3)
        if opts["on_content"]:
            opts["pass_info"] = tape.flag("pass_info", 1, 2)
        opts["return_info"] = tape.flag("return_info", 1, 2)
        if tape.flag("args", 1, 3):
            opts["args"] = ["A0"]
        if tape.flag("kwargs", 1, 3):
            opts["kwargs"] = {"kw": 1}
        if opts["on_content"] and tape.flag("read_args", 1, 3):
            opts["read_args"] = {"tag": "T"}
        # results written to an output fileset by the workers themselves
        opts["output"] = tape.flag("output", 1, 4)
    elif w["op"] in ("collect", "icollect"):
        opts["on_content"] = True
        opts["return_info"] = tape.flag("return_info", 1, 2)
        if tape.flag("read_args", 1, 3):
            opts["read_args"] = {"tag": "T"}
    w["opts"] = opts
    # selection
    sel = tape.pick(["all", "files", "period", "bundles", "find_bundle"], "sel") \
        if w["op"] != "align" else "align"
    w["sel"] = sel
    if sel == "period":
        # minutes after BASE, always at hh:30 so that no file boundary is hit
        span = (n + 1) * w["gap_h"]
        a = tape.choice(span + 2, "p0") - 1
        b = a + 1 + tape.choice(span + 2 - a, "p1")
        w["period"] = [a * 60 + 30, b * 60 + 30]
    elif sel == "files":
        w["files_idx"] = [i for i in range(n) if not tape.flag("drop", 1, 4)]
        if tape.flag("files_any_order", 1, 3) and len(w["files_idx"]) > 1:
            # an explicit selection is processed in the order it is given
            p_ = tape.perm(len(w["files_idx"]), "files_perm")
            w["files_idx"] = [w["files_idx"][k] for k in p_]
        w["files_as"] = "info"
    elif sel == "bundles":
        idx, out = 0, []
        while idx < n:
            k = 1 + tape.choice(3, "bsize")
            out.append(list(range(idx, min(n, idx + k))))
            idx += k
        w["bundles"] = out
    elif sel == "find_bundle":
        w["bundle_size"] = 1 + tape.choice(3, "fbsize")
    # align: secondaries and matches
    if w["op"] == "align":
        m = tape.count(1, 6, "m", (3, 4))
        w["m"] = m
        matches = []
        style = tape.pick(["window", "window", "arbitrary"], "mstyle")
        lo = 0
        for i in range(n):
            if style == "window":
                lo = min(m - 1, lo + tape.choice(2, "wlo"))
                k = 1 + tape.choice(min(3, m - lo), "wlen")
                sec = list(range(lo, lo + k))
            else:
                sec = [j for j in range(m) if tape.flag("pair", 1, 3)]
                if not sec:
                    sec = [tape.choice(m, "pair1")]
                if tape.flag("shuf", 1, 4):
                    p = tape.perm(len(sec), "shufp")
                    sec = [sec[q] for q in p]
            if tape.flag("skip_primary", 1, 8) and matches:
                continue
            matches.append([i, sec])
        if not matches:
            matches.append([0, [0]])
        w["matches"] = matches
        w["return_info"] = not tape.flag("align_no_info", 1, 3)
    # the consumer of imap/icollect stops after some items and closes the
    # generator: what was yielded is a prefix of the sequential answer, nothing
    # is read twice, no task stays behind, the pool is shut down
    w["abandon"] = tape.choice(3, "abandon_after") \
        if w["op"] in ("imap", "icollect") and tape.flag("abandon", 1, 5) else None
    # faults
    keys_a = [_fkey("a", i, w) for i in range(n)]
    keys_b = [_fkey("b", j, w) for j in range(w.get("m", 0))]
    allk = keys_a + keys_b
    w["fail_read"] = []
    w["fail_func"] = []
    w["func_none"] = []
    w["error_to_warning"] = False
    fault_mode = tape.pick(["none", "none", "read", "func", "both"], "faults")
    # the class of the reader's failure: any exception is a read error
    w["read_exc"] = tape.pick(["OSError", "OSError", "KeyError", "EOFError"], "read_exc")
    reads = opts.get("on_content", True) or w["op"] == "align"
    if fault_mode in ("read", "both") and reads:
        w["fail_read"] = [k for k in allk if tape.flag("fr", 1, 4)] or \
            [tape.pick(allk, "fr1")]
        w["error_to_warning"] = tape.flag("e2w", 2, 3)
    if fault_mode in ("func", "both") and w["op"] in ("map", "imap"):
        w["fail_func"] = [k for k in keys_a if tape.flag("ff", 1, 5)] or \
            [tape.pick(keys_a, "ff1")]
        if not reads:
            # e2w must not swallow func errors even without reading
            w["error_to_warning"] = tape.flag("e2w", 1, 2)
    if w["op"] in ("map", "imap") and tape.flag("nones", 1, 3):
        w["func_none"] = [k for k in keys_a if tape.flag("fn", 1, 3)]
    # stalls: per reader/func call a plan of yields and virtual latencies
    stalls = {}
    for k in allk:
        for what in ("r", "f"):
            plan = []
            c = tape.choice(4, "stall")
            if c == 1:
                plan.append(["y", 1 + tape.choice(3, "ny")])
            elif c == 2:
                plan.append(["s", [0.5, 1.0, 3.0, 10.0][tape.choice(4, "lat")]])
            elif c == 3:
                plan.append(["y", 1])
                plan.append(["s", [0.5, 2.0, 7.0][tape.choice(3, "lat")]])
            if plan:
                stalls[what + k] = plan
    w["stalls"] = stalls
    return w


def _ftime(i, w):
    return BASE + timedelta(hours=i * w["gap_h"])


def _fkey(side, i, w):
    """Identity of a file in the model: fileset and start time (the base name
    alone is not unique in the 'daily_hm' layout)."""
    t = _ftime(i, w)
    return f"{side}:" + t.strftime("%Y%m%d_%H%M") + w.get("ext", ".dat")


def _fname(i, w):
    t = _ftime(i, w)
    if w["layout"] == "daily_hm":
        return t.strftime("%H%M") + w.get("ext", ".dat")
    return t.strftime("%Y%m%d_%H%M") + w.get("ext", ".dat")


def _template(root, side, w):
    if w["layout"] == "flat":
        return f"{root}/{side}/{{year}}{{month}}{{day}}_{{hour}}{{minute}}" + w.get("ext", ".dat")
    if w["layout"] == "daily_hm":
        # equal base names in different day directories
        return f"{root}/{side}/{{year}}-{{month}}-{{day}}/{{hour}}{{minute}}" \
            + w.get("ext", ".dat")
    return f"{root}/{side}/{{year}}-{{month}}-{{day}}/" \
           f"{{year}}{{month}}{{day}}_{{hour}}{{minute}}" + w.get("ext", ".dat")


def _fpath(root, side, i, w):
    t = _ftime(i, w)
    if w["layout"] == "flat":
        return f"{root}/{side}/{_fname(i, w)}"
    return f"{root}/{side}/{t:%Y-%m-%d}/{_fname(i, w)}"


def _touch(path, key):
    """The file holds its own key: the reader identifies a file by what it
    reads (under transparent decompression it is handed a temporary copy)."""
    os.makedirs(os.path.dirname(path), exist_ok=True)
    if path.endswith(".gz"):
        import gzip
        with gzip.open(path, "wb") as f:
            f.write(key.encode())
    else:
        with open(path, "wb") as f:
            f.write(key.encode())


# ----------------------------------------------------------- reference model
def model_read(key, w, tag):
    if key in w["fail_read"]:
        return ("error", "read", key)
    return ("ok", {"file": key, "tag": tag})


def model_sequence(w, items):
    """items: list of ('single', key, info) / ('bundle', [keys], [infos]).
    Returns list of ('value', v) / ('raise', kind, key) in file order, exactly
    what the sequential program would produce, up to and including the first
    raise."""
    opts = w["opts"]
    on_content = opts.get("on_content", False)
    tag = (opts.get("read_args") or {}).get("tag")
    out = []
    nwarn = 0
    for kind, keys, infos in items:
        args = list(opts.get("args") or [])
        if kind == "single":
            keys_l, info_plain = [keys], infos
        else:
            keys_l, info_plain = keys, infos
        if on_content:
            contents, failed = [], None
            for k in keys_l:
                r = model_read(k, w, tag)
                if r[0] == "error":
                    failed = k
                    break
                contents.append(r[1])
            if failed is not None:
                if w["error_to_warning"]:
                    nwarn += 1
                    out.append(("value", _ret(opts, info_plain, None)))
                    continue
                out.append(("raise", "read", failed))
                break
            args.append(contents[0] if kind == "single" else contents)
        if not on_content or opts.get("pass_info"):
            args.append(info_plain)
        if opts.get("passthrough"):
            value = args[0]          # collect/icollect: func = first argument
        elif keys_l[0] in w["fail_func"]:
            out.append(("raise", "func", "+".join(keys_l)))
            break
        elif keys_l[0] in w["func_none"]:
            value = None
        else:
            value = {"args": args, "kwargs": dict(opts.get("kwargs") or {})}
        if opts.get("output"):
            # the worker stores a non-None value under the name generated from
            # the (first) file's times and reports whether it did
            if value is not None:
                w.setdefault("_outs", {})[keys_l[0]] = value
            value = value is not None
        out.append(("value", _ret(opts, info_plain, value)))
    return out, nwarn


def _ret(opts, info_plain, value):
    return [info_plain, value] if opts.get("return_info") else value


_TOP_TASK = re.compile(r"^[a-z]+1\.w(\d+)$")


# ------------------------------------------------------------------- the run
def run_one(tape, only=None):
    _T["state"].restore()      # each run models a fresh interpreter
    deterministic_tempnames()
    global ST
    res = new_result()
    w = gen_workload(tape)
    policy = make_policy(tape)
    if tape.flag("target_order", 1, 4):
        # systematic part: aim at one completion order of the first pool's
        # per-file tasks (a permutation drawn from the tape); everything else
        # (the caller, nested pools) runs whenever it can
        perm = tape.perm(6, "target_perm")
        pos = {seq: r for r, seq in enumerate(perm)}
        if w["n"] <= 6 and tape.flag("target_wide", 1, 2):
            w["max_workers"] = 8          # every order of <= 6 tasks is feasible
        # virtual latencies would decide the order instead of the ranking
        w["stalls"] = {k: [x for x in plan if x[0] == "y"]
                       for k, plan in w["stalls"].items()}

        def rank(t, pos=pos):
            m = _TOP_TASK.match(t.name)
            if m is None:
                return -1
            if t.steps == 0:
                return -1          # first get every startable task started
            seq = int(m.group(1))
            return pos.get(seq, 100 + seq)
        policy = {"kind": "target", "perm": list(perm), "rank": rank}
    sim = Sim(tape, policy, step_cap=6000)
    if w.get("ext", "").endswith(".gz") and w["worker_type"] == "thread" and \
            tape.flag("preempt_in_copy", 1, 2):
        # thread workers that decompress at the same time: pre-empt them
        # between two lines of typhon.files.utils (its copy loops included)
        import typhon.files.utils as _umod
        from sim.linepreempt import LinePreempt, periodic_points
        sim.line_preempt = LinePreempt(
            sim, [_umod], periodic_points(1 + tape.choice(5, "lp_phase"),
                                          2 + tape.choice(9, "lp_stride"), 400),
            only="pool")
    st = State(sim, tape, w)
    ST = st
    fsmod, FileSet, FileHandler = _T["fsmod"], _T["FileSet"], _T["FileHandler"]
    root = fresh_dir(scratch_root(), "c10")
    ROOT[0] = root
    PATHKEY.clear()
    SimPoolBase.sim = sim
    SimPoolBase.registry = pools = []
    outcome = {}
    try:
        n = w["n"]
        for i in range(n):
            PATHKEY[_fpath(root, "a", i, w)] = _fkey("a", i, w)
            _touch(_fpath(root, "a", i, w), _fkey("a", i, w))
        for j in range(w.get("m", 0)):
            PATHKEY[_fpath(root, "b", j, w)] = _fkey("b", j, w)
            _touch(_fpath(root, "b", j, w), _fkey("b", j, w))
        if w["op"] == "align" and not w.get("m"):
            pass
        handler = FileHandler(reader=reader)
        fs_a = FileSet(_template(root, "a", w), handler=handler, name="A",
                       time_coverage="1 hour", worker_type=w["worker_type"],
                       max_threads=3, max_processes=4,
                       temp_dir=os.path.join(root, "tmp"))
        fs_b = FileSet(_template(root, "b", w), handler=handler, name="B",
                       time_coverage="1 hour", temp_dir=os.path.join(root, "tmp"))
        out_fs = None
        if w["opts"].get("output"):
            sim.probe("output_fileset")
            out_fs = FileSet(
                f"{root}/out/{{year}}-{{month}}-{{day}}/{{hour}}{{minute}}.res",
                handler=FileHandler(writer=out_writer), name="OUT", fs=SimLocalFS())
        infos_a = list(fs_a.find()) if n else []
        infos_b = list(fs_b.find()) if w.get("m") else []
        # the model's own file list (independent of find): by construction
        exp_a = [(_fkey("a", i, w), _ftime(i, w)) for i in range(n)]
        if [(_key(f.path), f.times[0]) for f in infos_a] != exp_a:
            # find() itself is C01's subject, but the run cannot go on
            return dict(res, violations=[_viol(
                "C10/setup/find-differs",
                f"find() returned {[_key(f.path) for f in infos_a]} for the "
                f"files {[k for k, _ in exp_a]}")], wdigest=digest_of(w),
                edigest="setup", nontrivial=False)

        def main():
            with warnings.catch_warnings(record=True) as wlist:
                warnings.simplefilter("always")
                try:
                    outcome["got"] = _drive(w, fs_a, fs_b, infos_a, infos_b, outcome,
                                            out_fs)
                finally:
                    outcome["warnings"] = [
                        str(x.message) for x in wlist
                        if issubclass(x.category, RuntimeWarning)
                        and "Could not read the file" in str(x.message)]

        os.makedirs(os.path.join(root, "tmp"))
        _FS_HOOK[0] = lambda label: sim.yield_(label) if sim.me() is not None else None
        with patched((fsmod, "ThreadPoolExecutor", SimThreadPool),
                     (fsmod, "ProcessPoolExecutor", SimProcessPool),
                     (fsmod, "gc", NoGC)):
            try:
                sim.run(main)
                outcome["end"] = "returned"
            except StepCap as e:
                outcome["end"] = "stepcap"
                outcome["detail"] = str(e)
            except Deadlock as e:
                outcome["end"] = "deadlock"
                outcome["detail"] = str(e)
            except (InjectedRead, InjectedFuncError) as e:
                outcome["end"] = "raised"
                outcome["exc"] = e
            except BaseException as e:  # noqa: anything else the caller saw
                outcome["end"] = "raised"
                outcome["exc"] = e
        outcome["tmp_left"] = sorted(os.listdir(os.path.join(root, "tmp")))
        outcome["out_files"] = {}
        for dp, _, fn in os.walk(os.path.join(root, "out")):
            for f in fn:
                with open(os.path.join(dp, f), "rb") as fh:
                    try:
                        outcome["out_files"][os.path.relpath(
                            os.path.join(dp, f), os.path.join(root, "out"))] = pickle.load(fh)
                    except Exception as e:  # noqa
                        outcome["out_files"][f] = f"unreadable: {e}"
        violations = _oracle(w, st, sim, pools, outcome, policy)
    finally:
        _FS_HOOK[0] = None
        ST = None
        SimPoolBase.sim = None
        SimPoolBase.registry = None
        shutil.rmtree(root, ignore_errors=True)

    res["violations"] = violations
    res["faults"] = dict(st.fired)
    if sim.line_preempt is not None and sim.line_preempt.fired:
        sim.probe("line_preemptions_in_decompressing_workers")
    res["probes"] = dict(sim.probes)
    res["nontrivial"] = sim.stats["decisions_gt1"] > 0 or bool(st.fired)
    res["wdigest"] = digest_of(w)
    res["edigest"] = sim.digest()
    res["trace"] = sim.log[:800]
    res["sim_seconds"] = sim.now
    res["kinds"] = [f"op={w['op']}", f"pool={w['worker_type']}",
                    f"policy={policy['kind']}", f"sel={w['sel']}",
                    f"end={outcome.get('end')}"]
    res["counters"] = {"steps": sim.steps, "switches": sim.stats["switches"],
                       "tasks": len(sim.tasks), "pools": len(pools)}
    top = [p for p in pools if p.creator == "main"]
    res["sets"] = {"completion_orders": [
        f"{len(p.futures)}:" + ",".join(map(str, p.stats["completion_order"]))
        for p in top if 2 <= len(p.futures) <= 6
        and len(p.stats["completion_order"]) == len(p.futures)]}
    res["sample"] = {
        "workload": {k: v for k, v in w.items() if k != "stalls"},
        "stalls": len(w["stalls"]), "policy": policy_plain(policy),
        "outcome": outcome.get("end"),
        "completion_orders": [list(p.stats["completion_order"]) for p in top],
        "steps": sim.steps,
    }
    return res


def policy_plain(p):
    return {k: (sorted(v) if isinstance(v, (set, frozenset)) else v)
            for k, v in p.items() if not callable(v)}


def _drive(w, fs_a, fs_b, infos_a, infos_b, outcome, out_fs=None):
    """Runs inside the simulated caller task."""
    op, opts = w["op"], dict(w["opts"])
    kw = {}
    if w["max_workers"] is not None:
        kw["max_workers"] = w["max_workers"]
    if op == "align":
        matches = [(infos_a[i], [infos_b[j] for j in sec])
                   for i, sec in w["matches"]]
        got = []
        gen = fs_a.align(fs_b, matches=matches, return_info=w["return_info"],
                         skip_errors=w["error_to_warning"])
        outcome["partial"] = got
        for prim, sec in gen:
            got.append(_plain([prim, sec]))
        return got
    sel = w["sel"]
    if sel == "all":
        pass
    elif sel == "period":
        a, b = w["period"]
        kw["start"] = BASE + timedelta(minutes=a)
        kw["end"] = BASE + timedelta(minutes=b)
    elif sel == "files":
        if w["files_as"] == "str":
            kw["files"] = [infos_a[i].path for i in w["files_idx"]]
        else:
            kw["files"] = [infos_a[i] for i in w["files_idx"]]
    elif sel == "bundles":
        kw["files"] = [[infos_a[i] for i in b] for b in w["bundles"]]
    elif sel == "find_bundle":
        kw["bundle"] = w["bundle_size"]
    if w["error_to_warning"]:
        kw["error_to_warning"] = True
    if op in ("map", "imap"):
        kw["worker_type"] = w["worker_type"]
        if opts.pop("output", None):
            kw["output"] = out_fs
        call = dict(func=user_func, **{k: v for k, v in opts.items()}, **kw)
        if op == "map":
            return _plain(fs_a.map(**call))
        got = []
        outcome["partial"] = got
        gen = fs_a.imap(**call)
        for r in gen:
            got.append(_plain(r))
            if w.get("abandon") is not None and len(got) > w["abandon"]:
                gen.close()           # the consumer walks away half-way
                outcome["abandoned"] = True
                break
        return got
    call = dict(**opts, **kw)
    call.pop("on_content", None)
    if op == "collect":
        r = fs_a.collect(**call)
        return _plain(r)
    got = []
    outcome["partial"] = got
    gen = fs_a.icollect(**call)
    for r in gen:
        got.append(_plain(r))
        if w.get("abandon") is not None and len(got) > w["abandon"]:
            gen.close()
            outcome["abandoned"] = True
            break
    return got


def _selected_items(w):
    """The model's view of which files (or bundles) the call is about."""
    n = w["n"]

    def info(i):
        t = _ftime(i, w)
        return ("info", _fkey("a", i, w), [str(t), str(t + timedelta(hours=1))])

    sel = w["sel"]
    if sel in ("all", "align"):
        idx = list(range(n))
    elif sel == "period":
        a, b = w["period"]
        start, end = BASE + timedelta(minutes=a), BASE + timedelta(minutes=b)
        idx = [i for i in range(n) if _ftime(i, w) < end
               and _ftime(i, w) + timedelta(hours=1) >= start]
    elif sel == "files":
        idx = list(w["files_idx"])
    elif sel == "bundles":
        return [("bundle", [_fkey("a", i, w) for i in b], [info(i) for i in b])
                for b in w["bundles"]]
    elif sel == "find_bundle":
        k = w["bundle_size"]
        return [("bundle", [_fkey("a", i, w) for i in range(s, min(n, s + k))],
                 [info(i) for i in range(s, min(n, s + k))])
                for s in range(0, n, k)]
    return [("single", _fkey("a", i, w), info(i)) for i in idx]


def _viol(sig, msg, extra=None):
    return {"signature": sig, "message": msg, "extra": extra}


def _oracle(w, st, sim, pools, outcome, policy):
    V = []
    op = w["op"]
    end = outcome.get("end")
    # ---- liveness ---------------------------------------------------------
    if end == "deadlock":
        return [_viol(f"C10/{op}/deadlock", outcome["detail"])]
    if end == "stepcap":
        if policy["kind"] == "pct":
            sim.probe("stepcap_under_unfair_scheduler")
            return []
        return [_viol(f"C10/{op}/no-termination", outcome["detail"])]
    # every pool is shut down and drained when the call has returned / raised
    for p in pools:
        if any(f.state in ("pending", "running") for f in p.futures):
            V.append(_viol(f"C10/{op}/task-left-behind",
                           f"{p.label}: futures not finished after the call"))
    # ---- probes -------------------------------------------------------------
    for p in pools:
        co = p.stats["completion_order"]
        if any(co[i] > co[i + 1] for i in range(len(co) - 1)):
            sim.probe("later_finished_before_earlier")
        if p.creator == "main" and op in ("imap", "icollect", "align") \
                and p.stats["submitted"] > p.max_workers:
            sim.probe("imap_waited_on_full_queue")
    # ---- in-flight bound (imap / icollect / align loaders) ------------------
    if op in ("imap", "icollect", "align"):
        for p in pools:
            if p.creator == "main" and p.stats["max_inflight"] > p.max_workers:
                V.append(_viol(
                    f"C10/{op}/inflight-bound",
                    f"{p.label}: {p.stats['max_inflight']} submitted-but-"
                    f"unconsumed tasks with max_workers={p.max_workers}"))
    if op == "align":
        return V + _oracle_align(w, st, sim, outcome)
    # ---- results against the sequential model --------------------------------
    if w["sel"] == "files" and w.get("files_as") == "str":
        sim.probe("files_as_str")
    items = _selected_items(w)
    if not items and w["sel"] in ("period", "all", "find_bundle"):
        # documented: NoFilesError when nothing is found
        exc = outcome.get("exc")
        if end == "raised" and type(exc).__name__ == "NoFilesError":
            return V
        if end == "returned" and outcome.get("got") in ([], ([], [])):
            return V
        return V + [_viol(f"C10/{op}/empty-selection",
                          f"no file selected but call ended with {end}: "
                          f"{outcome.get('exc')!r} {outcome.get('got')!r}")]
    opts = w["opts"]
    mopts = dict(opts)
    if op in ("collect", "icollect"):
        mopts.update(on_content=True, pass_info=False, passthrough=True)
        # collect always asks map for info, icollect only if return_info
        if op == "collect":
            mopts["return_info"] = True
    wm = dict(w, opts=mopts)
    seq, nwarn = model_sequence(wm, items)
    exp_values = [v for k, v, *_ in seq if k == "value"]
    exp_raise = next((x for x in seq if x[0] == "raise"), None)
    got = outcome.get("got") if end == "returned" else outcome.get("partial")
    if outcome.get("abandoned") and end == "returned":
        sim.probe("generator_abandoned_half_way")
        k = len(got)
        if _norm(got) != _norm(exp_values[:k]):
            V.append(_viol(f"C10/{op}/results-before-abandoning",
                           f"yielded {_norm(got)!r}, the sequential answer starts with "
                           f"{_norm(exp_values[:k])!r}"))
        twice = {k_: c for k_, c in st.reads.items() if c > 1}
        if twice:
            V.append(_viol(f"C10/{op}/read-count", f"read more than once: {twice}"))
        if outcome.get("tmp_left"):
            V.append(_viol(f"C10/{op}/temp-debris",
                           f"left in the temporary directory: {outcome['tmp_left'][:3]}"))
        return V
    if exp_raise is not None:
        exc = outcome.get("exc")
        want_t = InjectedRead if exp_raise[1] == "read" else InjectedFuncError
        if end != "raised" or not isinstance(exc, want_t) \
                or exp_raise[2].split("+")[0].split(":")[1] not in str(exc):
            V.append(_viol(
                f"C10/{op}/exception-not-propagated",
                f"expected {want_t.__name__} for {exp_raise[2]}, call ended "
                f"with {end} {exc!r}"))
        elif op in ("imap", "icollect"):
            if _norm(got) != _norm(exp_values):
                V.append(_viol(
                    f"C10/{op}/results-before-exception",
                    f"yielded {got!r} before the exception, expected "
                    f"{_norm(exp_values)!r}"))
        return V
    if end == "raised":
        exc = outcome.get("exc")
        if op == "collect" and isinstance(exc, ValueError) and \
                all(v[1] is None for v in exp_values):
            return V + [_viol(
                "C10/collect/all-none-valueerror",
                f"collect() raised {exc!r} when no file had content")]
        return V + [_viol(
            f"C10/{op}/unexpected-exception",
            f"{type(exc).__name__}: {exc}")]
    # collect post-processing in the model: drop None contents, transpose
    if op == "collect":
        kept = [v for v in exp_values if v[1] is not None]
        if opts.get("return_info"):
            exp = [[v[0] for v in kept], [v[1] for v in kept]]
        else:
            exp = [v[1] for v in kept]
    else:
        exp = exp_values
    if _norm(got) != _norm(exp):
        cls = "order" if sorted(map(repr, _norm(got) or [])) == \
            sorted(map(repr, _norm(exp) or [])) else "content"
        V.append(_viol(f"C10/{op}/results-{cls}",
                       f"got {_norm(got)!r}\nexpected {_norm(exp)!r}"))
    # ---- exactly once ---------------------------------------------------------
    if mopts.get("on_content"):
        want = {}
        for kind, keys, _ in items:
            for k in ([keys] if kind == "single" else keys):
                want[k] = want.get(k, 0) + 1
        # a bundle is read by a nested collect(); when one member fails, the
        # members after it may or may not have been read (not yet started
        # futures are cancelled) - never more than once, though
        loose = set()
        for kind, keys, _ in items:
            if kind == "bundle" and any(k in w["fail_read"] for k in keys):
                loose.update(keys)
        bad = {k: (st.reads.get(k, 0), c) for k, c in want.items()
               if (st.reads.get(k, 0) != c and k not in loose)
               or st.reads.get(k, 0) > c}
        bad.update({k: (c, 0) for k, c in st.reads.items() if k not in want})
        if bad:
            V.append(_viol(f"C10/{op}/read-count",
                           f"reads (got, expected) {bad}"))
    elif st.reads:
        V.append(_viol(f"C10/{op}/read-count", f"unexpected reads {st.reads}"))
    if op in ("map", "imap"):
        wantf = {}
        for kind, keys, _ in items:
            ks = [keys] if kind == "single" else keys
            if mopts.get("on_content") and w["error_to_warning"] and \
                    any(k in w["fail_read"] for k in ks):
                continue
            wantf["+".join(ks)] = 1
        if st.func_calls != wantf:
            V.append(_viol(f"C10/{op}/func-count",
                           f"func calls {st.func_calls} expected {wantf}"))
    # ---- output fileset: exactly the non-None results, under their names ------
    if opts.get("output"):
        idx = {_fkey("a", i, w): i for i in range(w["n"])}
        want_out = {}
        for k, v in wm.get("_outs", {}).items():
            t = _ftime(idx[k], w)
            want_out[f"{t:%Y-%m-%d}/{t:%H%M}.res"] = _norm(v)
        if outcome.get("out_files") != want_out:
            V.append(_viol(
                f"C10/{op}/output-files",
                f"output fileset holds {outcome.get('out_files')!r}, expected "
                f"{want_out!r}"))
    if outcome.get("tmp_left"):
        V.append(_viol(f"C10/{op}/temp-debris",
                       f"left in the temporary directory: {outcome['tmp_left'][:3]}"))
    # ---- warnings ----------------------------------------------------------
    if len(outcome.get("warnings", [])) != nwarn:
        V.append(_viol(f"C10/{op}/warning-count",
                       f"{len(outcome.get('warnings', []))} read warnings, "
                       f"expected {nwarn}"))
    return V


def _norm(x):
    if isinstance(x, tuple):
        return [_norm(y) for y in x]
    if isinstance(x, list):
        return [_norm(y) for y in x]
    if isinstance(x, dict):
        return {k: _norm(v) for k, v in x.items()}
    return x


def _oracle_align(w, st, sim, outcome):
    V = []
    end = outcome.get("end")
    n, m = w["n"], w["m"]

    def ainfo(i):
        t = _ftime(i, w)
        return ("info", _fkey("a", i, w), [str(t), str(t + timedelta(hours=1))])

    def binfo(j):
        t = _ftime(j, w)
        return ("info", _fkey("b", j, w), [str(t), str(t + timedelta(hours=1))])

    skip = w["error_to_warning"]
    fail = set(w["fail_read"])
    matches = w["matches"]
    used_p = [i for i, _ in matches]
    used_s = []
    for _, sec in matches:
        for j in sec:
            if j not in used_s:
                used_s.append(j)
    bad = [_fkey("a", i, w) for i in used_p if _fkey("a", i, w) in fail] + \
          [_fkey("b", j, w) for j in used_s if _fkey("b", j, w) in fail]
    if any(len(set(sec)) < len(sec) for _, sec in matches):
        sim.probe("align_duplicate_secondary_in_match")
    seen = set()
    for _, sec in matches:
        for j in sec:
            if j in seen:
                sim.probe("align_secondary_from_cache")
            seen.add(j)
    if bad and not skip:
        exc = outcome.get("exc")
        if end != "raised" or not isinstance(exc, InjectedRead):
            V.append(_viol("C10/align/exception-not-propagated",
                           f"unreadable {bad} without skip_errors, call ended "
                           f"with {end} {exc!r}"))
        return V
    if end == "raised":
        exc = outcome.get("exc")
        return V + [_viol("C10/align/unexpected-exception",
                          f"{type(exc).__name__}: {exc}")]
    exp = []
    for i, sec in matches:
        pk = _fkey("a", i, w)
        for j in sec:
            sk = _fkey("b", j, w)
            if pk in fail or sk in fail:
                continue
            pdata = {"file": pk, "tag": None}
            sdata = {"file": sk, "tag": None}
            if w["return_info"]:
                exp.append([[ainfo(i), pdata], [binfo(j), sdata]])
            else:
                exp.append([pdata, sdata])
    got = outcome.get("got")
    if _norm(got) != _norm(exp):
        cls = "order" if sorted(map(repr, _norm(got))) == \
            sorted(map(repr, _norm(exp))) else "content"
        V.append(_viol(f"C10/align/results-{cls}",
                       f"got {_norm(got)!r}\nexpected {_norm(exp)!r}"))
    want = {_fkey("a", i, w): 1 for i in used_p}
    want.update({_fkey("b", j, w): 1 for j in used_s})
    if st.reads != want:
        V.append(_viol("C10/align/read-count",
                       f"reads {st.reads} expected {want}"))
    return V


def extra_coverage(agg):
    import math
    by_n = {}
    for item in agg["sets"].get("completion_orders", ()):
        n = int(item.split(":")[0])
        by_n[n] = by_n.get(n, 0) + 1
    return {"completion_orders_reached": {
        str(n): {"reached": c, "possible_with_unbounded_workers": math.factorial(n)}
        for n, c in sorted(by_n.items())}}
