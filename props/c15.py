"""C15 - the file-info cache survives restarts and interrupted saves.

Simulated system: an "interpreter" (a FileSet object + the simulator-owned
atexit registry) in front of a SimDisk: typhon.files.fileset's `open`, `shutil`
and `atexit` names are replaced so that every disk step of save_cache
(open-truncate of <file>.backup, each write issued by json.dump, close, rename)
is a numbered step at which the process can die (SimCrash), the interrupted
write landing only as a prefix (torn write).  Completed steps persist because
they go unbuffered to a real file in the scratch directory.

One case = one tape-drawn history (populate / save / clean exit / crash exit /
restart / load / find / external corruption).  It is first executed without
fault; then re-executed once per disk step of every save (and per torn-write
variant) with a crash there, followed by restart + checks.
"""
import io
import json
import os
import tempfile
import shutil as _real_shutil
import warnings
from datetime import datetime, timedelta

from sim.runner import new_result, scratch_root
from sim.seams import patched, import_typhon, fresh_dir
from sim.seams import deterministic_tempnames
from sim import digest_of
from props import naming

PROPERTY_ID = "C15"
LEVEL = "fault_enumeration"
RULE = (
    "one evaluation = one execution of a tape-drawn cache history (populate, "
    "save_cache, clean exit with atexit save, crash exit, restart with the same "
    "info_cache, load_cache, find with/without cache, external corruption): one "
    "fault-free execution per history plus one execution per numbered disk step "
    "of every save_cache in it (crash before that step; for buffer flushes also "
    "three torn-write variants; for every system-call step and a sample of the "
    "python-level writes additionally an OSError raised there instead of a "
    "crash), each followed by restart and the old-or-new check. "
    "Non-trivial = the execution crashed inside a save whose cache held >= 1 "
    "entry, or loaded a corrupted file, or compared a non-empty restored cache. "
    "Distinct = distinct (history digest, fault point) pairs.")
ASSUMPTIONS = [
    "crash model = process death: completed system calls persist, the "
    "interrupted write persists as a prefix, rename within one directory is "
    "atomic; loss/reordering of un-fsynced data (power failure) is NOT modelled "
    "because the property speaks of an interrupted save and the code has no fsync",
    "a *missing* cache file must give an empty cache without exception; a "
    "warning is demanded only for an existing but unreadable/malformed file "
    "(the constructor documents that the file need not exist)",
    "attributes are JSON values (str/int/float/bool/None/list/dict)",
]
COMPONENTS = {
    "real": ["typhon.files.fileset.FileSet (constructor, save_cache, load_cache, "
             "get_info, find, reset by time_coverage)", "FileInfo.to_json_dict/"
             "from_json_dict", "json", "the scratch directory's file system"],
    "stub": ["open/shutil.move/atexit as seen by typhon.files.fileset "
             "(step-counting SimDisk, simulator-owned exit handlers)"],
}
DEFAULTS = {
    "quick": {"budget_s": 40, "chunk": 6, "per_run_wall": 300, "minimise_s": 60},
    "thorough": {"budget_s": 900, "chunk": 20, "per_run_wall": 300,
                 "minimise_s": 300},
}
REQUIRED_PROBES = ["save_interrupted_by_exception", "crash_before_open", "crash_in_write", "crash_before_rename",
                   "crash_after_rename", "torn_write", "crash_in_atexit_save",
                   "corrupt_truncated", "corrupt_wrong_type", "corrupt_missing_key",
                   "restored_nonempty_cache", "extreme_dates_cached"]

_T = {}


def setup():
    import_typhon()
    import typhon.files.fileset as fsmod
    from typhon.files import FileSet
    from typhon.files.handlers.common import FileHandler, FileInfo
    _T.update(fsmod=fsmod, FileSet=FileSet, FileHandler=FileHandler,
              FileInfo=FileInfo)
    from sim.seams import typhon_state
    _T["state"] = typhon_state()


class SimCrash(BaseException):
    """The simulated interpreter dies here."""


# ------------------------------------------------------------------ the disk
class SimDisk:
    def __init__(self, cache_path):
        self.cache_path = cache_path
        self.step = 0              # steps of the *current* save
        self.save_no = -1
        self.in_save = False
        self.crash_at = None       # (save_no, step, torn_fraction or None)
        self.fault_at = None       # (save_no, step, "EIO"|"ENOSPC"): exception, no crash
        self.dead = False
        self.log = []
        self.unreadable = False
        self.steps_per_save = []
        self.kinds_per_save = []
        self.renamed = False
        self.bufsize = 8192
        self.interrupt_read = False    # the next read of the cache file is interrupted
        self.interrupted = False

    # called by the harness around each save_cache invocation
    def begin_save(self):
        self.save_no += 1
        self.step = 0
        self.in_save = True
        self.kinds_per_save.append([])

    def end_save(self):
        self.in_save = False
        self.steps_per_save.append(self.step)

    def _point(self, kind, torn_ok=False):
        """A numbered step. Returns None, or the torn fraction if the crash
        hits this (write) step as a torn write."""
        if self.dead:
            raise SimCrash()
        k = self.step
        self.step += 1
        if self.in_save:
            self.kinds_per_save[-1].append(kind)
        fa = self.fault_at
        if fa is not None and self.in_save and fa[0] == self.save_no and fa[1] == k:
            self.fault_at = None           # single shot
            self.log.append(f"{fa[2]} at {kind}#{k}")
            import errno as _errno
            raise OSError(getattr(_errno, fa[2]), f"injected {fa[2]} at {kind}#{k}")
        ca = self.crash_at
        if ca is not None and self.in_save and ca[0] == self.save_no and ca[1] == k:
            if ca[2] is not None and torn_ok:
                return ca[2]
            self.dead = True
            self.log.append(f"crash before {kind}#{k}")
            raise SimCrash()
        return None

    # -- the names typhon.files.fileset sees ------------------------------------
    def open(self, file, mode="r", *a, **kw):
        if self.dead:
            raise SimCrash()
        if "w" in mode or "a" in mode or "+" in mode:
            self._point("open_w")
            self.log.append("open_w " + ("<fd>" if isinstance(file, int)
                                         else os.path.basename(str(file))))
            raw = io.open(file, mode.replace("t", "") + "b"
                          if "b" not in mode else mode, buffering=0)
            f = _SimFile(self, raw)
            f.BUFSIZE = self.bufsize
            return f
        if self.unreadable and os.path.abspath(str(file)) == self.cache_path:
            raise PermissionError(13, "injected: Permission denied", str(file))
        if self.interrupt_read and os.path.abspath(str(file)) == self.cache_path:
            self.interrupt_read = False
            self.interrupted = True
            raise KeyboardInterrupt()       # Ctrl-C / SIGINT while the file is read
        return io.open(file, mode, *a, **kw)

    @staticmethod
    def _device(path):
        p = os.path.abspath(str(path))
        while not os.path.exists(p):
            p = os.path.dirname(p)
        return os.stat(p).st_dev

    def move(self, src, dst, *a, **kw):
        if os.path.isfile(str(src)) and \
                self._device(src) != self._device(os.path.dirname(os.path.abspath(str(dst)))):
            # source and destination are on different file systems: shutil.move
            # cannot rename, it copies into the (truncated) destination and
            # removes the source afterwards - a sequence of steps with crash
            # points, not an atomic replacement
            self.log.append("move across file systems = copy + unlink")
            with io.open(src, "rb") as f:
                data = f.read()
            self._point("open_w")
            out = _SimFile(self, io.open(dst, "wb", buffering=0))
            out.BUFSIZE = self.bufsize
            for i in range(0, len(data), 4096):
                out.write(data[i:i + 4096])
            out.close()
            self._point("remove")
            os.remove(src)
            if os.path.abspath(str(dst)) == self.cache_path:
                self.unreadable = False
            return dst
        self._point("rename")
        self.log.append("rename")
        r = _real_shutil.move(src, dst, *a, **kw)
        if os.path.abspath(str(dst)) == self.cache_path:
            self.unreadable = False     # the unreadable inode has been replaced
            self.renamed = True
        return r


class _SimFile:
    """Text file opened for writing: like io.TextIOWrapper over a
    BufferedWriter, data sit in a user-space buffer (lost when the process
    dies) until the buffer exceeds BUFSIZE or the file is closed."""
    BUFSIZE = 8192

    def __init__(self, disk, raw):
        self.disk, self.raw = disk, raw
        self.closed = False
        self.buf = bytearray()

    def write(self, s):
        d = self.disk
        d._point("write")          # dying here loses the buffered data
        data = s.encode("utf-8") if isinstance(s, str) else bytes(s)
        self.buf += data
        if len(self.buf) > self.BUFSIZE:
            self._flush("flush")
        return len(s)

    def _flush(self, kind):
        d = self.disk
        torn = d._point(kind, torn_ok=True)
        data = bytes(self.buf)
        if torn is not None:
            n = {0: 0, 1: max(0, len(data) - 1), 2: len(data) // 2}[torn]
            self.raw.write(data[:n])
            d.dead = True
            d.log.append(f"torn flush {n}/{len(data)}")
            raise SimCrash()
        self.raw.write(data)
        self.buf = bytearray()

    def close(self):
        if self.closed:
            return
        if self.disk.dead:           # the dead interpreter executes nothing
            self.closed = True
            self.raw.close()
            return
        try:
            if self.buf:
                self._flush("flush_at_close")
            self.disk._point("close")
        finally:
            self.closed = True
            self.raw.close()

    def flush(self):
        if self.buf and not self.disk.dead:
            self._flush("flush")

    def writable(self):
        return True

    def __getattr__(self, name):
        # name, mode, fileno, ... behave like the real file object's
        return getattr(self.raw, name)

    def __enter__(self):
        return self

    def __exit__(self, *exc):
        self.close()
        return False


class _ShutilProxy:
    def __init__(self, disk):
        self._disk = disk

    def move(self, *a, **kw):
        return self._disk.move(*a, **kw)

    def __getattr__(self, name):
        return getattr(_real_shutil, name)


class _OsProxy:
    """`os` as seen by typhon.files.fileset: the low-level calls a re-written
    save_cache might use (os.open/fdopen/rename/replace/remove) go through the
    SimDisk when they touch the cache directory; everything else is the real os."""

    def __init__(self, disk):
        self._disk = disk
        self._fds = set()

    def _mine(self, path):
        try:
            return os.path.dirname(os.path.abspath(os.fspath(path))) == \
                os.path.dirname(self._disk.cache_path)
        except TypeError:
            return False

    def open(self, path, flags, mode=0o777, **kw):
        d = self._disk
        if d.dead:
            raise SimCrash()
        if self._mine(path) and flags & (os.O_WRONLY | os.O_RDWR):
            d._point("open_w")
            d.log.append(f"os.open {os.path.basename(str(path))} "
                         f"{'trunc' if flags & os.O_TRUNC else 'no-trunc'}")
            fd = os.open(path, flags, mode, **kw)
            self._fds.add(fd)
            return fd
        return os.open(path, flags, mode, **kw)

    def fdopen(self, fd, *a, **kw):
        if fd in self._fds:
            self._fds.discard(fd)
            f = _SimFile(self._disk, io.open(fd, "wb", buffering=0))
            f.BUFSIZE = self._disk.bufsize
            return f
        return os.fdopen(fd, *a, **kw)

    def _step_then(self, kind, fn, *paths):
        d = self._disk
        if d.dead:
            raise SimCrash()
        if any(self._mine(p) for p in paths):
            d._point(kind)
            d.log.append(kind)
        r = fn(*paths)
        if kind == "rename" and os.path.abspath(os.fspath(paths[1])) == d.cache_path:
            d.unreadable = False
            d.renamed = True
        return r

    def rename(self, src, dst, **kw):
        return self._step_then("rename", os.rename, src, dst)

    def replace(self, src, dst, **kw):
        return self._step_then("rename", os.replace, src, dst)

    def remove(self, path, **kw):
        return self._step_then("remove", os.remove, path)

    def unlink(self, path, **kw):
        return self._step_then("remove", os.unlink, path)

    def __getattr__(self, name):
        return getattr(os, name)


class _Atexit:
    def __init__(self):
        self.handlers = []

    def register(self, func, *args, **kwargs):
        self.handlers.append((func, args, kwargs))
        return func

    def unregister(self, func):
        self.handlers = [h for h in self.handlers if h[0] is not func]


# ------------------------------------------------------------------ workload
EXTREME = [datetime.min, datetime.max, datetime(1, 1, 1, 0, 0, 0, 1),
           datetime(999, 12, 31, 23, 59, 59, 999999), datetime(1000, 1, 1),
           datetime(9999, 12, 31, 23, 59, 59, 999999), datetime(1970, 1, 1),
           datetime(2038, 1, 19, 3, 14, 8)]
ATTRS = [{}, {"sat": "noaa18"}, {"n": 3, "x": 1.5, "ok": True, "none": None},
         {"nested": {"a": [1, 2, {"b": "c"}]}, "uni": "ä€\U0001f600"},
         {"quote": "a\"b\\c\n", "long": "x" * 300},
         {"fsname": "caf\udce9.dat", "note": "surrogate-escaped byte, as from os.fsdecode"}]
KINDS = ["filename", "filename_ms", "nontemporal", "handler", "filename_noend"]


def gen_workload(tape):
    w = {}
    w["kind"] = tape.pick(KINDS, "kind")
    n = tape.count(0, 8, "nfiles", (3, 4))
    files = []
    base = datetime(2018, 5, 1)
    for i in range(n):
        f = {"i": i}
        if w["kind"] == "handler":
            mode = tape.choice(4, "tmode")
            if mode == 0:
                t0 = base + timedelta(hours=i, microseconds=tape.choice(1000000, "us"))
                t1 = t0 + timedelta(seconds=1 + tape.choice(7200, "dur"),
                                    microseconds=tape.choice(1000000, "us"))
            elif mode == 1:
                t0 = tape.pick(EXTREME, "ext0")
                t1 = tape.pick(EXTREME, "ext1")
                if t1 < t0:
                    t0, t1 = t1, t0
            elif mode == 2:
                t0, t1 = datetime.min, datetime.max
            else:
                t0 = base + timedelta(days=tape.choice(3000, "day"))
                t1 = t0
            f["t0"], f["t1"] = t0.isoformat(), t1.isoformat()
            f["attr"] = tape.choice(len(ATTRS), "attr")
        else:
            f["off_min"] = i * 30 + tape.choice(30, "off")
            f["ms"] = tape.choice(1000, "ms")
            f["dur_s"] = 1 + tape.choice(3000, "dur")
            f["sat"] = tape.pick(["a", "bb", "c-1"], "sat")
        files.append(f)
    w["files"] = files
    # tuning knob randomised per run: size of the user-space write buffer
    w["bufsize"] = tape.pick([8192, 64, 700, 1], "bufsize")
    ops = []
    nops = tape.count(2, 9, "nops", (4, 5))
    for _ in range(nops):
        op = tape.pick(["save", "populate", "restart_clean", "restart_crash",
                        "load", "find", "corrupt", "save", "populate_some",
                        "corrupt", "set_coverage", "remove_file", "corrupt",
                        "populate_fault", "restart_interrupted",
                        "exit_after_drop", "reset_cache"], "op")
        o = {"op": op}
        if op in ("corrupt", "save"):
            o["same_tick"] = tape.flag("same_tick", 1, 2)
        if op == "corrupt":
            o["how"] = tape.pick(["truncate", "wrong_type", "missing_key",
                                  "bad_time", "non_utf8", "empty", "missing_file",
                                  "unreadable", "directory", "truncate_sweep"], "how")
            o["arg"] = tape.choice(1000, "carg")
        elif op == "populate_some":
            o["which"] = [i for i in range(n) if tape.flag("some", 1, 2)]
        elif op == "remove_file" and n:
            o["which"] = tape.choice(n, "rm")
        elif op == "populate_fault" and n:
            # the handler fails once (EIO) while the information of this file
            # is retrieved; the caller repeats the search
            o["which"] = tape.choice(n, "pf")
        elif op == "set_coverage":
            o["tcov"] = tape.choice(3, "tcov")
        ops.append(o)
        if op == "corrupt":
            # look at the corrupted file before a later save replaces it
            ops.append({"op": tape.pick(["restart_crash", "load"], "after_corrupt")})
    # make sure there is something to look at
    ops.insert(0, {"op": "populate"})
    ops.append({"op": "save"})
    ops.append({"op": "restart_clean"})
    w["ops"] = ops
    return w


def _template(w, root):
    k = w["kind"]
    if k == "filename":
        return (f"{root}/data/{{sat}}/{{year}}/{{month}}/{{day}}/"
                "{hour}{minute}{second}-{end_hour}{end_minute}{end_second}.dat")
    if k == "filename_ms":
        return (f"{root}/data/{{sat}}_{{year}}{{doy}}_{{hour}}{{minute}}{{second}}"
                "{millisecond}-{end_hour}{end_minute}{end_second}{end_millisecond}.dat")
    if k == "nontemporal":
        return f"{root}/data/{{name}}.bin"
    if k == "filename_noend":
        # no end fields: the end of the coverage is start + time_coverage
        return f"{root}/data/{{sat}}-{{year}}{{month}}{{day}}T{{hour}}{{minute}}{{second}}.dat"
    return f"{root}/data/h_{{idx}}.raw"


def _file_path(w, root, f):
    k = w["kind"]
    if k in ("filename", "filename_ms", "filename_noend"):
        t0 = datetime(2018, 5, 1) + timedelta(minutes=f["off_min"])
        if k == "filename_ms":
            t0 += timedelta(milliseconds=f["ms"])
        t1 = t0 + timedelta(seconds=f["dur_s"])
        return naming.fmt(_template(w, root), t0, t1, sat=f["sat"])
    if k == "nontemporal":
        return f"{root}/data/static{f['i']}.bin"
    return f"{root}/data/h_{f['i']}.raw"


def handler_info(file_info):
    """info callable of the harness handler (kind == 'handler')."""
    tab = _T["table"]
    if _T.get("info_fault") == os.path.basename(file_info.path):
        _T["info_fault"] = None              # transient: fails once
        _T["info_fault_fired"] = True
        raise OSError(5, "injected EIO in handler.get_info")
    row = tab[os.path.basename(file_info.path)]
    return _T["FileInfo"](file_info.path, [row[0], row[1]],
                          json.loads(json.dumps(row[2])))


# ------------------------------------------------------------------ execution
def _snapshot(fs):
    return {p: (i.times[0], i.times[1], json.loads(json.dumps(i.attr)))
            for p, i in fs.info_cache.items()}


def _viol(sig, msg, extra=None):
    return {"signature": sig, "message": msg, "extra": extra}


class Exec:
    """One execution of a history, optionally with a crash."""

    def __init__(self, w, root, mode="all"):
        self.w, self.root = w, root
        self.mode = mode            # "all" | "none" | (save_no, step, torn)
        self.cache = os.path.join(root, "cache", "info.json")
        self.disk = SimDisk(os.path.abspath(self.cache))
        self.disk.bufsize = w["bufsize"]
        self.branches = 0
        self.faults = {}
        self.distinct = []
        self.branch_samples = []
        self.blog = []
        self.sweeps = 0
        self.tick = 0
        self.tcov_now = None
        self.cov_dirty = False        # cache file written under another time_coverage
        self.atexit_save = False
        self.atexit = _Atexit()
        self.V = []
        self.probes = {}
        self.fs = None
        self.saved_snap = None        # snapshot belonging to the file on disk
        self.saved_bytes = None       # bytes of the last completed save (None = absent)
        self.last_corruption = None
        self.save_docs = []           # (bytes, snapshot) per completed save
        self.nontrivial = False
        self.log = self.disk.log

    def probe(self, k):
        self.probes[k] = self.probes.get(k, 0) + 1

    def build_tree(self):
        w, root = self.w, self.root
        os.makedirs(os.path.join(root, "cache"))
        os.makedirs(os.path.join(root, "data"))
        table = {}
        for f in w["files"]:
            p = _file_path(w, root, f)
            os.makedirs(os.path.dirname(p), exist_ok=True)
            open(p, "wb").close()
            if w["kind"] == "handler":
                table[os.path.basename(p)] = (
                    datetime.fromisoformat(f["t0"]), datetime.fromisoformat(f["t1"]),
                    ATTRS[f["attr"]])
        _T["table"] = table
        _T["info_fault"] = None

    def new_fileset(self, with_cache=True):
        w = self.w
        kw = {}
        if w["kind"] == "handler":
            kw["handler"] = _T["FileHandler"](info=handler_info)
            kw["info_via"] = "handler"
        return _T["FileSet"](_template(w, self.root), name="S",
                             time_coverage=self.tcov_now,
                             info_cache=self.cache if with_cache else None, **kw)

    # -- operations -------------------------------------------------------------
    def start(self):
        self.fs = self._construct()

    def _file_state(self):
        """What the harness itself reads from the cache file right now."""
        path = self.cache
        if not os.path.lexists(path):
            return ("missing", None)
        if os.path.isdir(path):
            return ("invalid", "directory")
        if self.disk.unreadable:
            return ("invalid", "unreadable")
        with open(path, "rb") as f:
            data = f.read()
        if self.saved_bytes is not None and data == self.saved_bytes:
            return ("saved", self.saved_snap)
        entries = _parse_doc(data)
        if entries is None:
            return ("invalid", self.last_corruption or "malformed")
        return ("valid", entries)

    def _discard_foreign_cache(self):
        """The cache file does not record the time_coverage its entries were
        computed with.  A user who changed the coverage has to throw the old
        file away (a FileSet cannot know); the harness does the same, so that
        `find() with == without cache` is only demanded of entries made under
        the present configuration."""
        if self.cov_dirty:
            if os.path.isfile(self.cache):
                os.remove(self.cache)
                self.probe("cache_discarded_after_coverage_change")
            self.cov_dirty = False

    def _construct(self):
        self._discard_foreign_cache()
        state = self._file_state()
        with warnings.catch_warnings(record=True) as wl:
            warnings.simplefilter("always")
            try:
                fs = self.new_fileset()
            except Exception as e:  # noqa
                self.V.append(_viol(
                    "C15/constructor-exception",
                    f"FileSet(info_cache=...) raised {type(e).__name__}: {e}"))
                fs = self.new_fileset(with_cache=False)
                fs.info_cache_filename = self.cache
        warned = [str(x.message) for x in wl
                  if "Could not load the file information" in str(x.message)]
        self._check_loaded(fs, warned, state, "restart", {})
        return fs

    def _check_loaded(self, fs, warned, state, where, before):
        """before = snapshot of the in-memory cache before loading."""
        snap = _snapshot(fs)
        kind, val = state
        if kind in ("missing", "invalid"):
            if kind == "invalid":
                self.nontrivial = True
                if not warned:
                    self.V.append(_viol(
                        f"C15/corrupt/no-warning/{val}",
                        f"{where}: a {val} cache file gave no warning"))
            elif warned:
                self.V.append(_viol("C15/warning-without-cause",
                                    f"{where}: no cache file, yet: {warned[0][:200]}"))
            if snap != before:
                self.V.append(_viol(
                    f"C15/corrupt/invented-info/{val or 'missing'}",
                    f"{where}: cache changed by loading a {val or 'missing'} "
                    f"file: {_diff(snap, before)}"))
            return
        exp = val
        if warned:
            sig = "C15/roundtrip/unloadable" if kind == "saved" else \
                "C15/warning-without-cause"
            self.V.append(_viol(
                sig, f"{where}: a complete cache document could not be loaded: "
                     f"{warned[0][:300]}"))
            return
        want = dict(before)
        want.update(exp)
        if snap != want:
            self.V.append(_viol("C15/roundtrip/differs",
                                f"{where}: {_diff(want, snap)}"))
        if exp and kind == "saved":
            self.probe("restored_nonempty_cache")
            self.nontrivial = True
            if any(t[0].year < 1000 or t[1].year > 9000 for t in exp.values()):
                self.probe("extreme_dates_cached")

    def _dir_state(self):
        out = {}
        d = os.path.dirname(self.cache)
        for fn in os.listdir(d):
            p = os.path.join(d, fn)
            if os.path.isfile(p):
                with open(p, "rb") as f:
                    out[fn] = f.read()
        return out

    def _restore_dir(self, state):
        d = os.path.dirname(self.cache)
        for fn in os.listdir(d):
            p = os.path.join(d, fn)
            if os.path.isfile(p):
                os.remove(p)
        for fn, data in state.items():
            with open(os.path.join(d, fn), "wb") as f:
                f.write(data)

    def save(self, via_atexit=False, branch=False):
        fs = self.fs
        snap = _snapshot(fs)
        before = None if branch or self.mode == "none" else self._dir_state()
        old = (self.saved_bytes, self.saved_snap, self.last_corruption,
               self.disk.unreadable)
        cov_dirty_before = self.cov_dirty
        self.disk.begin_save()
        try:
            if via_atexit:
                for func, args, kwargs in reversed(self.atexit.handlers):
                    func(*args, **kwargs)
            else:
                fs.save_cache(self.cache)
        except SimCrash:
            raise
        except Exception as e:  # noqa: a fault-free save must not fail
            self.disk.end_save()
            self.V.append(_viol(f"C15/save/exception/{type(e).__name__}",
                                f"save_cache raised {type(e).__name__}: {e}"[:300]))
            return
        self.disk.end_save()
        if not os.path.isfile(self.cache):
            self.V.append(_viol("C15/save/not-written",
                                "save_cache returned but there is no cache file"))
            self.saved_bytes = self.saved_snap = None
            return
        with open(self.cache, "rb") as f:
            self.saved_bytes = f.read()
        self.saved_snap = snap
        self.save_docs.append((self.saved_bytes, snap))
        self.cov_dirty = False        # the file now holds this coverage's entries
        if before is None:
            return
        # ---- crash enumeration for this save (branches off the main line) ----
        s = self.disk.save_no
        n = self.disk.steps_per_save[-1]
        kinds = self.disk.kinds_per_save[-1]
        if self.mode == "all":
            plan = []
            for k in range(n + 1):
                plan.append((k, None))
                if k < n and kinds[k] in ("flush", "flush_at_close"):
                    for tv in (0, 1, 2):        # torn: nothing / all-but-one / half
                        plan.append((k, tv))
                # the same step failing with an exception instead of a crash
                if k < n and kinds[k] != "write":
                    plan.append((k, "ENOSPC" if kinds[k] != "open_w" else "EIO"))
                elif k < n and k % 7 == 3:
                    plan.append((k, "EIO"))      # python-level writes: sampled
        elif self.mode[0] == s:
            plan = [(self.mode[1], self.mode[2])]
        else:
            plan = []
        if not plan:
            return
        after = self._dir_state()
        main = (self.fs, self.atexit, self.disk, self.saved_bytes, self.saved_snap,
                self.V, self.nontrivial, self.save_docs)
        fsmod = _T["fsmod"]
        for k, tv in plan:
            self._restore_dir(before)
            self.cov_dirty = cov_dirty_before
            bdisk = SimDisk(self.disk.cache_path)
            bdisk.unreadable = old[3]
            bdisk.bufsize = self.w["bufsize"]
            if isinstance(tv, str):
                bdisk.fault_at = (0, k, tv)
            else:
                bdisk.crash_at = (0, k, tv)
            bat = _Atexit()
            self.disk, self.atexit = bdisk, bat
            self.V, self.nontrivial, self.save_docs = [], False, []
            self.saved_bytes, self.saved_snap, self.last_corruption = old[0], old[1], old[2]
            self.expected_new = (main[3], main[4])
            self.old_file_bytes = before.get(os.path.basename(self.cache))
            crashed = False
            with patched((fsmod, "open", bdisk.open),
                         (fsmod, "shutil", _ShutilProxy(bdisk)),
                         (fsmod, "os", _OsProxy(bdisk)),
                         (fsmod, "atexit", bat)):
                bdisk.begin_save()
                try:
                    fs.save_cache(self.cache)
                    bdisk.end_save()
                    if isinstance(tv, str):
                        self.V.append(_viol(
                            "C15/ioerror/swallowed",
                            f"save_cache returned normally although {tv} was "
                            f"injected at step {k}"))
                except SimCrash:
                    crashed = True
                    self.after_crash()
                except OSError as e:
                    crashed = True
                    if not isinstance(tv, str):
                        raise
                    self.after_crash(ioerror=True)
                if not crashed and k == n:
                    self.after_crash()        # died right after the save
            self.branches += 1
            kind = kinds[k] if k < n else "after_rename"
            name = {"open_w": "crash_before_open", "write": "crash_in_write",
                    "flush": "crash_before_flush",
                    "flush_at_close": "crash_before_flush",
                    "close": "crash_before_close", "rename": "crash_before_rename",
                    "remove": "crash_before_remove",
                    "after_rename": "crash_after_rename"}[kind]
            if isinstance(tv, str):
                name = "io_error_" + tv
            elif tv is not None:
                name = "torn_write"
            self.faults[name] = self.faults.get(name, 0) + 1
            if via_atexit:
                self.probe("crash_in_atexit_save")
            if not crashed and k < n:
                self.V.append(_viol("C15/harness/crash-not-reached",
                                    f"crash point {(s, k, tv)} was not reached"))
            for v in self.V:
                v["extra"] = {"crash": [s, k, tv]}
                v["message"] += (f" [crash point save#{s} step {k}/{n} ({kind}"
                                 f"{'' if tv is None else ', torn variant ' + str(tv)})]")
            main[5].extend(self.V)
            if self.nontrivial:
                self.distinct.append(f"{s}.{k}.{tv}")
                if len(self.branch_samples) < 3:
                    self.branch_samples.append(
                        {"crash": [s, k, tv], "kind": kind, "log_tail": bdisk.log[-3:]})
            self.blog.append(f"{s}.{k}.{tv}:" + digest_of(bdisk.log))
            (self.fs, self.atexit, self.disk, self.saved_bytes, self.saved_snap,
             self.V, nt, self.save_docs) = main
            self.cov_dirty = False
            self.nontrivial = nt or self.nontrivial
            main = (self.fs, self.atexit, self.disk, self.saved_bytes,
                    self.saved_snap, self.V, self.nontrivial, self.save_docs)
        self._restore_dir(after)

    def op(self, o):
        kind = o["op"]
        fs = self.fs
        if kind == "populate":
            list(fs.find(no_files_error=False))
        elif kind == "populate_fault":
            if self.w["kind"] == "handler" and self.w["files"] and "which" in o:
                p = _file_path(self.w, self.root, self.w["files"][o["which"]])
                _T["info_fault"] = os.path.basename(p)
                _T["info_fault_fired"] = False
                try:
                    list(fs.find(no_files_error=False))
                except OSError:
                    pass                      # allowed: the search may fail
                except Exception as e:  # noqa
                    self.V.append(_viol("C15/find-exception",
                                        f"{type(e).__name__}: {e}"[:300]))
                _T["info_fault"] = None
                if _T.get("info_fault_fired"):
                    self.faults["handler_error_in_get_info"] = \
                        self.faults.get("handler_error_in_get_info", 0) + 1
                    self.probe("search_repeated_after_handler_error")
                    self.nontrivial = True
            # the repetition has to succeed and to agree with an uncached fileset
            try:
                list(fs.find(no_files_error=False))
            except Exception as e:  # noqa
                self.V.append(_viol("C15/find-exception",
                                    f"repeated search: {type(e).__name__}: {e}"[:300]))
            self.compare_find()
        elif kind == "populate_some":
            for i in o["which"]:
                p = _file_path(self.w, self.root, self.w["files"][i])
                if os.path.exists(p):
                    fs.get_info(p)
        elif kind == "save":
            self.save()
            self.stamp(o)
        elif kind == "restart_clean":
            self.save(via_atexit=True)
            self.stamp()
            self.atexit.handlers = []
            self.fs = self._construct()
        elif kind == "restart_crash":
            self.atexit.handlers = []
            self.fs = self._construct()
        elif kind == "reset_cache":
            # the user empties the cache of the live object: a later save writes
            # what the object holds then, not what the file held before
            fs.reset_cache()
            self.probe("cache_reset_by_the_user")
        elif kind == "exit_after_drop":
            # the script held its FileSet in a local variable: the last
            # reference is gone before the interpreter shuts down and runs the
            # at-exit handlers - the cache is saved all the same
            if os.path.isdir(self.cache):
                _real_shutil.rmtree(self.cache)
            snap = _snapshot(fs)
            had_handlers = bool(self.atexit.handlers)
            fs = None
            self.fs = None
            import gc as _gc
            _gc.collect()
            self.disk.begin_save()
            try:
                for func, args, kwargs in reversed(self.atexit.handlers):
                    func(*args, **kwargs)
            except Exception as e:  # noqa
                self.V.append(_viol(f"C15/save/exception/{type(e).__name__}",
                                    f"at-exit save: {e}"[:300]))
            self.disk.end_save()
            self.stamp()
            self.probe("exit_after_the_object_was_dropped")
            if had_handlers and snap:
                self.nontrivial = True
                entries = None
                if os.path.isfile(self.cache):
                    with open(self.cache, "rb") as f:
                        entries = _parse_doc(f.read())
                if entries is None or set(entries) != set(snap):
                    self.V.append(_viol(
                        "C15/atexit/not-saved-after-object-dropped",
                        f"the FileSet went out of scope before interpreter exit: the "
                        f"cache file holds {None if entries is None else len(entries)} "
                        f"entries, the cache had {len(snap)}"))
            self.saved_bytes = self.saved_snap = None
            if os.path.isfile(self.cache):
                with open(self.cache, "rb") as f:
                    self.saved_bytes = f.read()
                self.saved_snap = snap
            self.cov_dirty = False
            self.atexit.handlers = []
            self.fs = self._construct()
        elif kind == "restart_interrupted":
            # a new interpreter starts, the constructor is interrupted (SIGINT)
            # while it reads the cache file, the interpreter shuts down and
            # runs its at-exit handlers: the file must still be what it was
            self.atexit.handlers = []
            self._discard_foreign_cache()
            before = None
            if os.path.isfile(self.cache) and not self.disk.unreadable:
                with open(self.cache, "rb") as f:
                    before = f.read()
            self.disk.interrupt_read = True
            self.disk.interrupted = False
            try:
                self.new_fileset()
            except KeyboardInterrupt:
                pass
            except Exception as e:  # noqa
                self.V.append(_viol("C15/constructor-exception",
                                    f"{type(e).__name__}: {e}"[:300]))
            self.disk.interrupt_read = False
            if self.disk.interrupted:
                self.faults["interrupt_while_loading"] = \
                    self.faults.get("interrupt_while_loading", 0) + 1
                self.probe("constructor_interrupted_while_loading")
                for func, args, kwargs in reversed(self.atexit.handlers):
                    try:
                        func(*args, **kwargs)
                    except Exception:  # noqa: atexit prints and goes on
                        pass
                after = None
                if os.path.isfile(self.cache):
                    with open(self.cache, "rb") as f:
                        after = f.read()
                if before is not None and after != before:
                    self.nontrivial = True
                    self.V.append(_viol(
                        "C15/interrupted-load/cache-file-changed",
                        f"the constructor was interrupted while reading the cache "
                        f"file ({len(before)} bytes); after interpreter shutdown the "
                        f"file holds {None if after is None else len(after)} bytes"))
                    self.saved_bytes = self.saved_snap = None
                elif before is not None and _parse_doc(before):
                    self.nontrivial = True
            self.atexit.handlers = []
            self.fs = self._construct()
        elif kind == "load":
            self._discard_foreign_cache()
            state = self._file_state()
            before = _snapshot(fs)
            with warnings.catch_warnings(record=True) as wl:
                warnings.simplefilter("always")
                try:
                    fs.load_cache(self.cache)
                except Exception as e:  # noqa
                    self.V.append(_viol("C15/load-exception",
                                        f"load_cache raised {type(e).__name__}: {e}"))
            warned = [str(x.message) for x in wl
                      if "Could not load the file information" in str(x.message)]
            self._check_loaded(fs, warned, state, "load", before)
        elif kind == "find":
            self.compare_find()
        elif kind == "corrupt":
            self.corrupt(o)
        elif kind == "set_coverage":
            if self.w["kind"] != "nontemporal":
                # the new value stays: for templates without end fields every
                # cached coverage is different afterwards
                self.tcov_now = ["1 hour", "10 minutes", None][o.get("tcov", 0) % 3] \
                    if self.tcov_now is None else None
                fs.time_coverage = self.tcov_now
                # the persisted cache does not record the coverage it was made
                # with: a user who changes it throws the file away - at once
                # (a lazily kept flag was cleared by accident twice, see
                # DESIGN.md section 12)
                self.cov_dirty = True
                self._discard_foreign_cache()
                if fs.info_cache:
                    self.V.append(_viol("C15/coverage-reset",
                                        "info cache not reset by time_coverage"))
        elif kind == "remove_file":
            if self.w["files"]:
                p = _file_path(self.w, self.root, self.w["files"][o["which"]])
                if os.path.exists(p):
                    os.remove(p)

    def compare_find(self):
        plain = self.new_fileset(with_cache=False)
        try:
            a = [(f.path, f.times, f.attr) for f in self.fs.find(no_files_error=False)]
            b = [(f.path, f.times, f.attr) for f in plain.find(no_files_error=False)]
        except Exception as e:  # noqa
            self.V.append(_viol("C15/find-exception", f"{type(e).__name__}: {e}"))
            return
        if sorted(a, key=repr) != sorted(b, key=repr):
            self.V.append(_viol(
                "C15/find-differs-with-cache",
                f"with cache {a[:3]}... without {b[:3]}..."))

    # The modification time of the cache file is a clock reading: the harness
    # owns it.  After every change of the file (save, external corruption) the
    # stamp is set to the simulated coarse file-system clock, which advances
    # only when the operation says so - two versions written within one tick
    # carry the same mtime, as on a file system with coarse timestamps or
    # after a copy that preserves times.
    MTIME0 = 1_500_000_000

    def stamp(self, o=None):
        if o is None or not o.get("same_tick"):
            self.tick += 1
        else:
            self.probe("rewritten_within_one_mtime_tick")
        self._pin_mtime()

    def _pin_mtime(self):
        if os.path.isfile(self.cache):
            try:
                os.utime(self.cache, (self.MTIME0 + self.tick, self.MTIME0 + self.tick))
            except OSError:
                pass

    def corrupt(self, o):
        self._corrupt(o)
        self.stamp(o)

    def _corrupt(self, o):
        how, arg = o["how"], o["arg"]
        path = self.cache
        if os.path.isdir(path):
            _real_shutil.rmtree(path)
        self.disk.unreadable = False      # permissions restored
        data = None
        if os.path.exists(path):
            with open(path, "rb") as f:
                data = f.read()
        if how == "missing_file":
            if data is not None:
                os.remove(path)
            self.probe("corrupt_missing_file")
            return
        if how == "directory":
            if data is not None:
                os.remove(path)
            os.makedirs(path)
            self.last_corruption = "directory"
            self.probe("corrupt_directory")
            return
        if data is None:
            data = b"[]"
        try:
            doc = json.loads(data.decode("utf-8"))
        except Exception:  # noqa
            doc = None
        label = None
        new = data
        if how == "truncate_sweep" and len(data) >= 2 and os.path.exists(path):
            # truncation at every byte offset (stride for long documents):
            # each must give a warning and an empty cache on restart
            stride = max(1, len(data) // 600)
            keep_atexit = self.atexit
            # (the restarts of the sweep look at the truncated documents
            # themselves; whether the complete document is stale with respect
            # to a changed coverage is decided when it is back in place)
            keep_dirty, self.cov_dirty = self.cov_dirty, False
            for cut in range(0, len(data), stride):
                with open(path, "wb") as f:
                    f.write(data[:cut])
                self._pin_mtime()             # all cuts within one tick
                self.last_corruption = "truncated"
                self.atexit = _Atexit()
                with patched((_T["fsmod"], "atexit", self.atexit)):
                    self._construct()
                self.sweeps += 1
            self.atexit = keep_atexit
            self.cov_dirty = keep_dirty
            with open(path, "wb") as f:
                f.write(data)
            self.probe("corrupt_truncated_sweep")
            self.probe("corrupt_truncated")
            return
        if how == "truncate" and len(data) >= 2:
            new = data[:arg % (len(data) - 1)]   # never the complete document
            label = "truncated"
        elif how == "empty":
            new, label = b"", "truncated"
        elif how == "wrong_type":
            new = [b'{"a": 1}', b"42", b'"text"', b"null", b"[1, 2]",
                   b'[["x"]]', b'[null]'][arg % 7]
            label = "wrong_type"
        elif how in ("missing_key", "bad_time") and isinstance(doc, list) \
                and doc and all(isinstance(e, dict) for e in doc):
            e = doc[arg % len(doc)]
            if how == "missing_key":
                e.pop(["path", "times", "attr"][arg % 3], None)
                label = "missing_key"
            else:
                e["times"] = [["2018-13-45T00:00:00.000000", "x"], "nope",
                              ["2018-01-01", "2018-01-02"], [1, 2], [],
                              ["2018-01-01T00:00:00.000000"], None, {"a": 1},
                              ["2018-01-01T00:00:00.000000", 7]][arg % 9]
                label = "bad_time"
            new = json.dumps(doc).encode()
        elif how == "non_utf8":
            new, label = b"\xff\xfe[\x80" + data, "non_utf8"
        elif how == "unreadable":
            self.disk.unreadable = True
            label = "unreadable"
        if label is None:
            return
        with open(path, "wb") as f:
            f.write(new)
        self.last_corruption = label
        self.probe("corrupt_" + label)

    def run(self):
        """Execute the history. Returns True if it crashed."""
        self.build_tree()
        fsmod = _T["fsmod"]
        with patched((fsmod, "open", self.disk.open),
                     (fsmod, "shutil", _ShutilProxy(self.disk)),
                     (fsmod, "os", _OsProxy(self.disk)),
                     (fsmod, "atexit", self.atexit)):
            try:
                self.start()
                for o in self.w["ops"]:
                    if os.path.isdir(self.cache) and o["op"] in (
                            "save", "restart_clean"):
                        # saving over a directory fails by design; not our subject
                        _real_shutil.rmtree(self.cache)
                    try:
                        self.op(o)
                    except (SimCrash, AssertionError):
                        raise
                    except Exception as e:  # noqa: typhon failed in a fault-free step
                        self.V.append(_viol(
                            f"C15/{o['op']}/exception/{type(e).__name__}",
                            f"operation {o['op']}: {type(e).__name__}: {e}"[:300]))
                return False
            except SimCrash:
                raise AssertionError("harness: crash escaped a branch")

    def after_crash(self, ioerror=False):
        """The interpreter died inside a save (or, ioerror=True, the save was
        interrupted by an exception). Restart and check old-or-new."""
        d = self.disk
        if ioerror:
            self.probe("save_interrupted_by_exception")
        d.in_save = False
        d.crash_at = None
        d.dead = False
        self.atexit.handlers = []
        old_bytes = self.old_file_bytes      # cache file before this save
        new_bytes, new_snap = self.expected_new
        cur = None
        if os.path.exists(self.cache) and not os.path.isdir(self.cache):
            with open(self.cache, "rb") as f:
                cur = f.read()
        if d.renamed and cur == new_bytes:
            self.saved_bytes, self.saved_snap = new_bytes, new_snap
            state = "new"
        elif not d.renamed and cur == old_bytes:
            state = "old"                  # incl. whatever corruption it had
        else:
            state = "mixed"
            self.V.append(_viol(
                "C15/crash/not-old-or-new",
                f"after {self.log[-1] if self.log else d.log[-1]} the cache "
                f"file holds {None if cur is None else len(cur)} bytes: neither "
                f"the previous document "
                f"({None if old_bytes is None else len(old_bytes)} bytes) nor "
                f"the new one ({len(new_bytes)} bytes)"))
            self.saved_snap = None
        if new_snap:
            self.nontrivial = True
        self.probe("crash_state_" + state)
        # restart: loading must work without warning and give that document
        if state != "mixed":
            self.fs = self._construct()
            # and the restarted interpreter can save and restart again
            try:
                self.save(branch=True)
                self.atexit.handlers = []
                self.fs = self._construct()
            except SimCrash:
                raise
            except Exception as e:  # noqa
                self.V.append(_viol("C15/crash/recovery-exception",
                                    f"{type(e).__name__}: {e}"))


_TIME_RE = None


def _parse_time(x):
    """Strict reading of the documented time layout YYYY-MM-DDTHH:MM:SS.ffffff."""
    global _TIME_RE
    import re
    if _TIME_RE is None:
        _TIME_RE = re.compile(
            r"^(\d{4})-(\d\d)-(\d\d)T(\d\d):(\d\d):(\d\d)\.(\d{6})$")
    if not isinstance(x, str):
        raise ValueError("time is not a string")
    m = _TIME_RE.match(x)
    if not m:
        raise ValueError("time layout")
    return datetime(*map(int, m.groups()))


def _parse_doc(data):
    """The harness's own reading of a cache document (not load_cache).
    Returns {path: (t0, t1, attr)} or None if the document is malformed."""
    try:
        doc = json.loads(data.decode("utf-8"))
    except Exception:  # noqa
        return None
    if not isinstance(doc, list):
        return None
    out = {}
    for e in doc:
        if not isinstance(e, dict) or not isinstance(e.get("path"), str):
            return None
        t = e.get("times")
        if not isinstance(t, list) or len(t) != 2 or not isinstance(e.get("attr"), dict):
            return None
        try:
            out[e["path"]] = (_parse_time(t[0]), _parse_time(t[1]), e["attr"])
        except ValueError:
            return None
    return out


def _diff(exp, got):
    out = []
    for p, v in exp.items():
        g = got.get(p)
        if g != v:
            out.append(f"{os.path.basename(p)}: saved {v} restored {g}")
    extra = [p for p in got if p not in exp]
    if extra:
        out.append(f"extra entries {extra[:3]}")
    return "; ".join(out)[:600]


# ------------------------------------------------------------------- the run
def run_one(tape, only=None):
    _T["state"].restore()      # each run models a fresh interpreter
    deterministic_tempnames()
    res = new_result()
    w = gen_workload(tape)
    wd = digest_of(w)
    mode = "all"
    if only is not None:
        mode = tuple(only["crash"]) if only.get("crash") is not None else "none"
    root = fresh_dir(scratch_root(), "c15")
    # the default temporary directory of the run: private to this process (a
    # changed save_cache may write there; crashed executions leave files
    # behind) and, where /tmp and the scratch root are different file systems,
    # on another one than the cache file - so a move from there is a copy
    saved_tempdir = tempfile.tempdir
    other_tmp = os.path.join("/tmp", f"typhon-verif-c15-{os.getpid():08d}")
    _real_shutil.rmtree(other_tmp, ignore_errors=True)
    os.makedirs(other_tmp, exist_ok=True)
    tempfile.tempdir = other_tmp
    try:
        ex = Exec(w, root, mode)
        ex.run()
    finally:
        _real_shutil.rmtree(root, ignore_errors=True)
        tempfile.tempdir = saved_tempdir
        _real_shutil.rmtree(other_tmp, ignore_errors=True)
    for v in ex.V:
        if v.get("extra") is None:
            v["extra"] = {"crash": None}
    seen, uniq = set(), []
    for v in ex.V:
        if v["signature"] not in seen:
            seen.add(v["signature"])
            uniq.append(v)
    steps = list(ex.disk.steps_per_save)
    res["violations"] = uniq
    res["executions"] = 1 + ex.branches + ex.sweeps
    res["faults"] = ex.faults
    res["probes"] = ex.probes
    res["nontrivial"] = ex.nontrivial or bool(ex.distinct)
    res["wdigest"] = wd
    res["edigest"] = digest_of([digest_of(ex.log)] + ex.blog)
    res["trace"] = {"main_line_disk_log": ex.log[-60:], "branch_examples": ex.branch_samples}
    res["distinct_keys"] = [f"{wd}:{d}" for d in ex.distinct] + \
        ([f"{wd}:main"] if ex.nontrivial else [])
    res["counters"] = {"crash_points": ex.branches, "saves": len(steps),
                       "disk_steps": sum(steps)}
    res["kinds"] = [f"kind={w['kind']}"]
    res["sample"] = {
        "kind": w["kind"], "files": len(w["files"]),
        "ops": [o["op"] + (":" + o["how"] if "how" in o else "") for o in w["ops"]],
        "disk_steps_per_save": steps, "crash_points_executed": ex.branches,
        "example_points": ex.branch_samples,
    }
    return res


def _atexit_save_numbers(w):
    out, n = set(), 0
    for o in w["ops"]:
        if o["op"] == "save":
            n += 1
        elif o["op"] == "restart_clean":
            out.add(n)
            n += 1
    return out


def extra_coverage(agg):
    return {"exhaustive_per_history": True,
            "note": "every numbered disk step of every save_cache of each "
                    "sampled history is crashed once (plus 3 torn variants per "
                    "write step); the histories themselves are sampled"}
