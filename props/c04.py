"""C04 - Collocator.collocate finds exactly the point pairs within distance and interval.

Stateful simulation: ONE Collocator per run and a tape-drawn sequence of
collocate() calls on datasets taken from a small per-run pool, so that earlier
point sets recur (index re-use), recur with primary/secondary swapped, recur
slightly perturbed, change size ratio across magnitude_factor.  The permutation
drawn by the spatial index's internal shuffle comes from the tape (same seam as
C06).  Oracle per call: brute force with own chord distance and integer-second
time differences; the verdict of call k must not depend on calls 1..k-1.
"""
import math
import warnings
from datetime import datetime, timedelta

import numpy as np

import concurrent.futures as _cf
import os

from sim.kernel import Sim, make_policy, StepCap, Deadlock
from sim.executors import (SimPoolBase, SimThreadPool, SimProcessPool,
                           sim_as_completed, sim_wait)
from sim.linepreempt import LinePreempt
from sim.runner import new_result
from sim.treefault import TreeFaultPlan, faulty
from sim.seams import patched, import_typhon
from sim import digest_of
from props.c06 import NpProxy

PROPERTY_ID = "C04"
LEVEL = "exploration"
RULE = (
    "one case = one seeded run: one Collocator object and 2-7 collocate() calls "
    "on datasets from a per-run pool (linear and scan-line x scan-position "
    "layouts, 1-300 points, NaN positions, unsorted/duplicate times, clusters "
    "straddling the radius, poles/date line), with thresholds as numbers or "
    "unit strings, start/end windows, bin_factor / magnitude_factor / "
    "leaf_size varied, datasets recurring unchanged, swapped or perturbed; "
    "rarely the > 10^6-candidate configuration that takes the temporally "
    "binned path. The index shuffle permutation is chosen by the tape. "
    "Non-trivial = a call after the first whose expected pair set is non-empty. "
    "Distinct = distinct (history digest, permutation) pairs.")
ASSUMPTIONS = [
    "pairs whose distance is within 1e-6 km of max_distance are border cases; "
    "radii are generated between distinct entries of the distance matrix",
    "inputs satisfy the documented contract: time/lat/lon on a shared, uniquely "
    "labelled dimension or scan-line x scan-position grid",
    "point sets, thresholds and call histories are sampled, not enumerated",
]
COMPONENTS = {
    "real": ["typhon.collocations.collocator.Collocator (collocate, "
             "_prepare_data, spatial_search, binned search, _create_return)",
             "typhon.geographical.GeoIndex + sklearn BallTree", "xarray/pandas"],
    "stub": ["np.random.shuffle as seen by typhon.geographical (permutation "
             "chosen by the tape)"],
}
DEFAULTS = {
    "quick": {"budget_s": 45, "chunk": 4, "per_run_wall": 300, "minimise_s": 90},
    "thorough": {"budget_s": 900, "chunk": 30, "per_run_wall": 300,
                 "minimise_s": 300},
}
REQUIRED_PROBES = ["spatial_only", "recur_mutated_in_place", "index_reused_same_points", "recur_swapped", "recur_perturbed",
                   "size_ratio_above_magnitude_factor", "gridded_layout",
                   "nan_positions", "only_pair_is_first_first", "window_cuts",
                   "binned_path", "empty_answer", "unit_string_thresholds"]

_T = {}
BASE = datetime(2018, 6, 1)
CENTRES = [(10.0, 20.0), (10.2, 20.0), (89.9, 0.0), (0.0, 179.95), (-33.0, -70.0)]


def setup():
    import_typhon()
    import typhon.geographical as gmod
    import typhon.constants as cst
    from typhon.collocations import Collocator
    import xarray as xr
    import typhon.collocations.collocator as cmod
    _T.update(gmod=gmod, Collocator=Collocator, xr=xr, cmod=cmod,
              R=float(cst.earth_radius) / 1000.0)
    from sim.seams import typhon_state
    _T["state"] = typhon_state()


FRACTIONS = [0.0, 0.5, 0.25, 0.999, 0.001]      # exact in milliseconds

DIMNAMES = [("scnline", "scnpos"), ("scnline", "scnpos"), ("scanline", "pixel"),
            ("y", "x"), ("along_track", "across_track")]


def gen_dataset(tape, did, force_big=False):
    d = {"id": did}
    d["layout"] = tape.pick(["linear", "linear", "grid"], "layout")
    d["subsec"] = tape.flag("subsec", 1, 3)      # time stamps with fractions of a second
    big = force_big or tape.flag("big", 1, 300)
    d["big"] = big
    if big and tape.flag("biggrid", 1, 3):
        # a large swath: the pre-binned path with gridded input
        d["layout"] = "grid"
        d["big"] = False              # materialised by the grid branch
        d["biggrid"] = True
        d["lines"], d["pos"] = 34 + tape.choice(8, "blines"), 31 + tape.choice(3, "bpos")
        d["c"] = 0
        d["times"] = sorted(tape.choice(7200, "t") for _ in range(d["lines"]))
        d["step"] = [0.002, 0.02][tape.choice(2, "step")]
        d["nan"] = []
        d["dims"] = tape.choice(len(DIMNAMES), "dims")
        return d
    if big:
        d["n"] = 1001 + tape.choice(300, "nbig")
        d["layout"] = "linear"
        d["seed"] = tape.choice(10 ** 6, "bigseed")
        return d
    if d["layout"] == "linear":
        n = tape.count(1, 40, "n", (7, 8))
        pts = []
        for _ in range(n):
            c = tape.choice(len(CENTRES), "c")
            dla = [0.0, 0.001, 0.01, 0.05, 0.3][tape.choice(5, "dla")] * (tape.choice(3, "s") - 1)
            dlo = [0.0, 0.001, 0.02, 0.3][tape.choice(4, "dlo")] * (tape.choice(3, "s2") - 1)
            t = tape.choice(7200, "t")
            if d["subsec"]:
                t += FRACTIONS[tape.choice(len(FRACTIONS), "frac")]
            nan = tape.flag("nan", 1, 15)
            pts.append([c, dla, dlo, t, nan])
        if tape.flag("dup_time", 1, 4) and len(pts) > 1:
            pts[-1][3] = pts[0][3]
        d["pts"] = pts
    else:
        lines = tape.count(1, 6, "lines", (3, 4))
        pos = tape.count(1, 5, "pos", (3, 4))
        d["lines"], d["pos"] = lines, pos
        d["c"] = tape.choice(len(CENTRES), "c")
        d["times"] = [tape.choice(7200, "t") +
                      (FRACTIONS[tape.choice(len(FRACTIONS), "frac")] if d["subsec"] else 0)
                      for _ in range(lines)]
        d["step"] = [0.002, 0.02, 0.2][tape.choice(3, "step")]
        d["nan"] = [(tape.choice(lines, "nl"), tape.choice(pos, "np"))
                    for _ in range(tape.choice(2, "nnan"))]
        # names of the two swath dimensions (their alphabetical order differs)
        d["dims"] = tape.choice(len(DIMNAMES), "dims")
    return d


def materialise(d, perturb=0.0):
    """-> dict(time [ns int64... as datetime64], lat, lon, id) flat arrays + dataset"""
    xr = _T["xr"]
    if d.get("big"):
        rs = np.random.RandomState(d["seed"])
        n = d["n"]
        lat = 10.0 + rs.uniform(-0.5, 0.5, n)
        lon = 20.0 + rs.uniform(-0.5, 0.5, n)
        secs = rs.randint(0, 7200, n).astype(float)
        if d.get("subsec"):
            secs = secs + rs.choice(FRACTIONS, n)
        ids = np.arange(n) + 100000 * (d["id"] + 1)
        t = np.array([np.datetime64(BASE, "ms") + np.timedelta64(int(round(s * 1000)), "ms")
                      for s in secs])
        ds = xr.Dataset({"time": ("obs", t.astype("M8[ns]")), "lat": ("obs", lat),
                         "lon": ("obs", lon), "id": ("obs", ids)},
                        coords={"obs": np.arange(n) * 2 + 5})
        return ds, {"t": secs.astype(float), "lat": lat, "lon": lon, "id": ids}
    if d["layout"] == "linear":
        lat, lon, secs = [], [], []
        for c, dla, dlo, t, nan in d["pts"]:
            la, lo = CENTRES[c]
            la = max(-90.0, min(90.0, la + dla + perturb))
            lo = ((lo + dlo + 180.0) % 360.0) - 180.0
            if nan:
                la = float("nan")
            lat.append(la)
            lon.append(lo)
            secs.append(t)
        n = len(lat)
        ids = np.arange(n) + 100000 * (d["id"] + 1)
        t = np.array([np.datetime64(BASE + timedelta(seconds=s), "ns") for s in secs])
        ds = xr.Dataset({"time": ("obs", t), "lat": ("obs", np.array(lat)),
                         "lon": ("obs", np.array(lon)), "id": ("obs", ids)},
                        coords={"obs": np.arange(n) * 2 + 5})
        return ds, {"t": np.array(secs, float), "lat": np.array(lat),
                    "lon": np.array(lon), "id": ids}
    L, P = d["lines"], d["pos"]
    la0, lo0 = CENTRES[d["c"]]
    lat = np.array([[max(-90.0, min(90.0, la0 + d["step"] * i + perturb)) for j in range(P)]
                    for i in range(L)])
    lon = np.array([[((lo0 + d["step"] * j + 180.0) % 360.0) - 180.0 for j in range(P)]
                    for i in range(L)])
    for i, j in d["nan"]:
        lat[i, j] = np.nan
    ids = (np.arange(L * P) + 100000 * (d["id"] + 1)).reshape(L, P)
    t = np.array([np.datetime64(BASE + timedelta(seconds=s), "ns") for s in d["times"]])
    dl, dp = DIMNAMES[d.get("dims", 0)]
    ds = xr.Dataset({"time": (dl, t), "lat": ((dl, dp), lat),
                     "lon": ((dl, dp), lon),
                     "id": ((dl, dp), ids)},
                    coords={dl: np.arange(L) * 3 + 11,     # unique labels
                            dp: np.arange(P) + 1})
    secs = np.repeat(np.array(d["times"], float), P)
    return ds, {"t": secs, "lat": lat.ravel(), "lon": lon.ravel(), "id": ids.ravel()}


def gen_workload(tape):
    w = {}
    # dedicated runs for the temporally pre-binned path (> 10^6 candidate
    # pairs): two large datasets, two calls, all bin factors incl. < 1
    bigrun = tape.flag("bigrun", 1, 25)
    w["bigrun"] = bigrun
    npool = 2 if bigrun else tape.count(2, 4, "npool", (1, 2))
    w["pool"] = [gen_dataset(tape, i, force_big=bigrun) for i in range(npool)]
    calls = []
    for k in range(2 if bigrun else tape.count(2, 7, "ncalls", (3, 4))):
        c = {}
        mode = tape.pick(["fresh", "repeat", "swap", "perturb", "fresh", "mutate"],
                         "cmode") if k else "fresh"
        c["mode"] = mode
        c["p"] = tape.choice(npool, "p")
        c["s"] = tape.choice(npool, "s")
        c["perturb"] = [1e-6, 1e-4, 0.004][tape.choice(3, "pert")] if mode == "perturb" else 0.0
        c["rsel"] = tape.choice(10 ** 6, "rsel")
        c["rmode"] = tape.pick(["between", "between", "tiny", "large", "huge"], "rmode")
        c["mi"] = tape.pick([60, 600, 3600, 10, 7200, 86400], "mi")
        c["mi_as"] = tape.pick(["number", "string", "timedelta", "np_int64", "np_int32", "np_float32"], "mi_as")
        c["md_as"] = tape.pick(["number", "km", "m"], "md_as")
        c["window"] = tape.pick([None, None, [600, 5000], [0, 3600], [3000, 3001]], "window")
        c["bin_factor"] = tape.pick([1, 2, 10, 0.5, 0.25, 3], "bf")
        if bigrun:
            c["p"], c["s"] = (0, 1) if k == 0 else (1, 0)
            c["mode"] = "fresh"
            c["mi"] = tape.pick([60, 600, 10, 300], "bigmi")
            c["rmode"] = "between"
            c["window"] = None
        c["magnitude_factor"] = tape.pick([10, 1, 2, 100], "mf")
        c["leaf_size"] = tape.pick([40, 1, 3], "leaf")
        c["named"] = tape.flag("named", 1, 2)
        c["other_between"] = tape.flag("other_between", 1, 4)
        # spatial collocations only (max_interval=None; start/end do not apply)
        c["spatial_only"] = tape.flag("spatial_only", 1, 6)
        if bigrun:
            c["spatial_only"] = False
        if c["spatial_only"]:
            c["window"] = None
        calls.append(c)
    w["calls"] = calls
    # the (documented, so far unused) threads argument of Collocator
    w["threads"] = tape.pick([None, None, 2, 3], "threads")
    # line pre-emption of pool workers (only the binned-path runs could have any)
    # allocation failure at the tree seam: the k-th tree construction or radius
    # query of the run raises MemoryError; that collocate() call may fail, the
    # following ones on the same Collocator must be exact again
    w["alloc_fault"] = None
    if tape.flag("alloc_fault", 1, 8):
        w["alloc_fault"] = [tape.pick(["build", "query"], "af_kind"),
                            1 + tape.choice(4, "af_k")]
    # another thread of the process uses a Collocator of its own at the same
    # time (objects are independent of each other); both threads are pre-empted
    # between lines of typhon
    w["decoy_caller"] = (not bigrun) and tape.flag("decoy_caller", 1, 5)
    w["decoy_stride"] = 3 + tape.choice(25, "decoy_stride")
    w["line_stride"] = 17 + tape.choice(40, "linestride") if bigrun else 0
    w["line_phase"] = 1 + tape.choice(60, "linephase") if bigrun else 0
    w["store_stride"] = 1 + tape.choice(5, "storestride") if bigrun else 0
    w["perm"] = tape.pick(["random", "reverse", "identity", "rot1"], "perm")
    w["perm_seed"] = tape.choice(10 ** 6, "permseed")
    return w


def chord(la1, lo1, la2, lo2, R):
    def xyz(la, lo):
        la, lo = np.radians(la), np.radians(lo)
        return np.stack([R * np.cos(la) * np.cos(lo), R * np.cos(la) * np.sin(lo),
                         R * np.sin(la)], axis=-1)
    A, B = xyz(la1, lo1), xyz(la2, lo2)
    d = A[:, None, :] - B[None, :, :]
    return np.sqrt((d * d).sum(axis=2))


def _viol(sig, msg, extra=None):
    return {"signature": sig, "message": msg, "extra": extra}


SHIFT = np.int64(1) << np.int64(32)


def _decode(codes):
    return [(int(c) >> 32, int(c) & 0xFFFFFFFF) for c in codes]


def run_one(tape, only=None):
    _T["state"].restore()      # each run models a fresh interpreter
    res = new_result()
    w = gen_workload(tape)
    R = _T["R"]
    gmod = _T["gmod"]
    probes, V, answers = {}, [], []
    nontrivial = 0

    def probe(k):
        probes[k] = probes.get(k, 0) + 1

    def chooser(k):
        kind = w["perm"]
        if kind == "identity":
            return np.arange(k)
        if kind == "reverse":
            return np.arange(k)[::-1].copy()
        if kind == "rot1":
            return np.roll(np.arange(k), -1)
        return np.random.RandomState(w["perm_seed"]).permutation(k)

    coll = _T["Collocator"](threads=w["threads"])
    prev = None
    history = []
    live = {}          # pool index -> (dataset, flat arrays) kept alive between calls
    # collocate() is sequential today; should it ever use a pool (the threads
    # argument is documented), the pool is the simulator's and its workers can
    # be pre-empted between two lines of typhon's own code
    cmod = _T["cmod"]
    plan = TreeFaultPlan()
    if w["alloc_fault"]:
        if w["alloc_fault"][0] == "build":
            plan.build_fail_at = w["alloc_fault"][1]
        else:
            plan.query_fail_at = w["alloc_fault"][1]
    seams = [(gmod, "np", NpProxy(chooser)),
             (gmod, "BallTree", faulty(gmod.BallTree, plan)),
             (gmod, "KDTree", faulty(gmod.KDTree, plan))]
    for mod in (cmod, _cf):
        for name, fake in (("ThreadPoolExecutor", SimThreadPool),
                           ("ProcessPoolExecutor", SimProcessPool),
                           ("as_completed", sim_as_completed), ("wait", sim_wait)):
            if mod is _cf or hasattr(mod, name):
                seams.append((mod, name, fake))
    sim = Sim(tape, make_policy(tape, allow=("random", "sticky")), step_cap=200000)
    SimPoolBase.sim, SimPoolBase.registry = sim, []
    if w["line_stride"]:
        from sim.linepreempt import periodic_points
        sim.line_preempt = LinePreempt(
            sim, [cmod, gmod],
            periodic_points(w["line_phase"], w["line_stride"], 400), only="pool",
            store_points=periodic_points(1 + w["line_phase"] % w["store_stride"],
                                         w["store_stride"], 600))

    def _calls():
        nonlocal prev, nontrivial
        for k, c in enumerate(w["calls"]):
            mode = c["mode"]
            pi, si = c["p"], c["s"]
            if mode in ("repeat", "perturb", "mutate") and prev is not None:
                pi, si = prev
            elif mode == "swap" and prev is not None:
                pi, si = prev[1], prev[0]
                probe("recur_swapped")
            dp, ds_ = w["pool"][pi], w["pool"][si]
            if mode == "mutate" and pi in live and si in live and pi != si \
                    and not dp.get("big") and not ds_.get("big"):
                # the caller updates its own arrays in place and calls again
                # with the very same dataset objects
                P, fp = live[pi]
                S, fs = live[si]
                for ds_obj, flat, d in ((P, fp, 0.013), (S, fs, -0.011)):
                    ds_obj["lat"].values[...] = np.clip(ds_obj["lat"].values + d, -90, 90)
                    flat["lat"] = ds_obj["lat"].values.ravel().copy()
                probe("recur_mutated_in_place")
            else:
                P, fp = materialise(dp, c["perturb"])
                # perturb both sides (in opposite directions) so that whichever
                # side the index is built from differs from the previous call
                S, fs = materialise(ds_, -c["perturb"])
                live[pi], live[si] = (P, fp), (S, fs)
            if mode == "perturb":
                probe("recur_perturbed")
            if mode == "repeat" and prev is not None:
                probe("index_reused_same_points")
            prev = (pi, si)
            if dp["layout"] == "grid" or ds_["layout"] == "grid":
                probe("gridded_layout")
            if np.isnan(fp["lat"]).any() or np.isnan(fs["lat"]).any():
                probe("nan_positions")
            okp = ~np.isnan(fp["lat"])
            oks = ~np.isnan(fs["lat"])
            if fp["id"].size * fs["id"].size > 1000000:
                probe("binned_path")
            ratio = max(okp.sum(), 1) / max(oks.sum(), 1)
            if ratio > c["magnitude_factor"] or 1 / ratio > c["magnitude_factor"]:
                probe("size_ratio_above_magnitude_factor")
            big = fp["id"].size * fs["id"].size > 250000
            if big:
                # avoid a dense 10^6 matrix in float64 x 3: still fine (24 MB)
                pass
            D = chord(np.nan_to_num(fp["lat"]), fp["lon"], np.nan_to_num(fs["lat"]),
                      fs["lon"], R)
            valid = okp[:, None] & oks[None, :]
            vals = np.unique(np.round(D[valid], 9)) if valid.any() else np.array([1.0])
            if c["rmode"] == "tiny":
                md = 1e-4
            elif c["rmode"] == "large":
                md = 800.0
            elif c["rmode"] == "huge":
                md = 2500.0          # above the documented tunnel_limit of 1000 km
            else:
                i = c["rsel"] % len(vals)
                lo_v = vals[i]
                hi_v = vals[i + 1] if i + 1 < len(vals) else vals[i] + 1.0
                md = (lo_v + hi_v) / 2.0 if hi_v - lo_v >= 1e-4 else lo_v + 5e-5
            md = float(max(md, 1e-4))
            border = np.abs(D - md) < 1e-6
            mi = c["mi"]
            # exact: time stamps are whole milliseconds (a float difference
            # such as 2177.999 - 1577.999 is 599.9999999999998, not 600)
            tp_ms = np.rint(fp["t"] * 1000.0).astype(np.int64)
            ts_ms = np.rint(fs["t"] * 1000.0).astype(np.int64)
            dt = np.abs(tp_ms[:, None] - ts_ms[None, :]) / 1000.0
            if c["window"]:
                ws, we = c["window"]
                inwin = ((fp["t"] >= ws) & (fp["t"] <= we))[:, None] & \
                        ((fs["t"] >= ws) & (fs["t"] <= we))[None, :]
                probe("window_cuts")
            else:
                inwin = np.ones_like(valid)
            if c["spatial_only"]:
                hit = valid & (D <= md)
                probe("spatial_only")
            else:
                hit = valid & inwin & (dt < mi) & (D <= md)
            # pairs as int64 codes id_primary * 2^32 + id_secondary (vectorised:
            # a large radius gives several 10^5 pairs)
            def codes(mask):
                ii, jj = np.nonzero(mask)
                return np.sort(fp["id"][ii].astype(np.int64) * SHIFT
                               + fs["id"][jj].astype(np.int64))
            exp = codes(hit & ~border)
            maybe = codes(hit & border)
            kw = dict(max_interval={"number": mi, "string": f"{mi} s",
                                    "timedelta": timedelta(seconds=mi),
                                    "np_int64": np.int64(mi), "np_int32": np.int32(mi),
                                    "np_float32": np.float32(mi)}[c["mi_as"]],
                      max_distance={"number": md, "km": f"{md!r} km",
                                    "m": f"{md * 1000.0!r} m"}[c["md_as"]],
                      bin_factor=c["bin_factor"], magnitude_factor=c["magnitude_factor"],
                      leaf_size=c["leaf_size"])
            if c["mi_as"] != "number" or c["md_as"] != "number":
                probe("unit_string_thresholds")
            if c["spatial_only"]:
                kw["max_interval"] = None
            if c["window"]:
                kw["start"] = BASE + timedelta(seconds=c["window"][0])
                kw["end"] = BASE + timedelta(seconds=c["window"][1])
            pn, sn = ("A", "B") if c["named"] else ("primary", "secondary")
            a1 = (pn, P) if c["named"] else P
            a2 = (sn, S) if c["named"] else S
            desc = (f"call {k} ({mode}): {fp['id'].size}x{fs['id'].size} points "
                    f"({dp['layout']}/{ds_['layout']}), max_distance={kw['max_distance']}, "
                    f"max_interval={mi}s, window={c['window']}, mf={c['magnitude_factor']}, "
                    f"perm={w['perm']}, history={history}")
            history.append(f"{mode}:{pi}x{si}")
            if c.get("other_between"):
                # another Collocator object works on data of the same size in
                # between: objects must be independent of each other
                probe("other_collocator_in_between")
                try:
                    _T["Collocator"]().collocate(a1, a2, **kw)
                except Exception:  # noqa: not the object under test
                    pass
                plan.take_fired()
            try:
                out = coll.collocate(a1, a2, **kw)
            except Exception as e:  # noqa
                if plan.take_fired():
                    probe("call_failed_under_alloc_fault")     # allowed: it may fail
                    history[-1] += "(failed)"
                    continue
                V.append(_viol(f"C04/exception/{type(e).__name__}", f"{desc}: {e}"[:500]))
                continue
            plan.take_fired()
            answers.append(digest_of(exp.tolist()))
            if exp.size and k > 0:
                nontrivial += 1
            if exp.size == 1 and int(exp[0]) == int(fp["id"][0]) * SHIFT + int(fs["id"][0]):
                probe("only_pair_is_first_first")
            if out is None:
                probe("empty_answer")
                if exp.size:
                    V.append(_viol("C04/none-although-pairs-exist",
                                   f"{desc}: None returned, {exp.size} pair(s) expected, "
                                   f"e.g. {_decode(exp[:3])}"))
                continue
            try:
                pairs = np.asarray(out["Collocations/pairs"].values)
                ida = np.asarray(out[f"{pn}/id"].values)
                idb = np.asarray(out[f"{sn}/id"].values)
                pa = np.asarray(pairs[0]).astype(np.int64)
                pb = np.asarray(pairs[1]).astype(np.int64)
                ga, gb = ida[pa].astype(np.int64), idb[pb].astype(np.int64)
                gl = ga * SHIFT + gb                  # in the order of the result
                iv = np.asarray(out["Collocations/interval"].values)
                dist = np.asarray(out["Collocations/distance"].values, dtype=float)
            except Exception as e:  # noqa
                V.append(_viol("C04/malformed-result", f"{desc}: {type(e).__name__}: {e}"[:400]))
                continue
            got = np.unique(gl)
            if not got.size:
                V.append(_viol("C04/empty-dataset-instead-of-none", desc))
            if gl.size != got.size:
                V.append(_viol("C04/duplicate-pairs",
                               f"{desc}: {gl.size - got.size} duplicate pair(s)"))
            missing = np.setdiff1d(exp, got, assume_unique=True)
            extra = np.setdiff1d(np.setdiff1d(got, exp, assume_unique=True), maybe,
                                 assume_unique=True)
            if missing.size:
                V.append(_viol("C04/missing-pairs",
                               f"{desc}: {missing.size} of {exp.size} pair(s) missing, "
                               f"e.g. {_decode(missing[:3])}"))
            if extra.size:
                V.append(_viol("C04/spurious-pairs",
                               f"{desc}: {extra.size} unexpected pair(s), e.g. "
                               f"{_decode(extra[:3])}"))
            # every stored point takes part in a pair; stored interval/distance
            if not missing.size and not extra.size and gl.size == got.size:
                op_ = np.argsort(fp["id"], kind="stable")
                os_ = np.argsort(fs["id"], kind="stable")
                ii = op_[np.searchsorted(fp["id"][op_], ga)]
                jj = os_[np.searchsorted(fs["id"][os_], gb)]
                sec = iv / np.timedelta64(1, "s") if iv.dtype.kind == "m" \
                    else iv.astype(float)
                bad_i = np.abs(sec - dt[ii, jj]) >= 1.0
                bad_d = np.abs(dist - D[ii, jj]) > 1e-6 + 1e-9 * D[ii, jj]
                first = np.nonzero(bad_i | bad_d)[0]
                if first.size:
                    n_ = int(first[0])
                    a, b = int(ga[n_]), int(gb[n_])
                    i, j = int(ii[n_]), int(jj[n_])
                    if bad_i[n_]:
                        V.append(_viol("C04/stored-interval",
                                       f"{desc}: pair {(a, b)} interval {sec[n_]} s, actual "
                                       f"{dt[i, j]} s"))
                    else:
                        V.append(_viol("C04/stored-distance",
                                       f"{desc}: pair {(a, b)} distance {dist[n_]} km, "
                                       f"actual {D[i, j]} km"))

    try:
        with patched(*seams), warnings.catch_warnings():
            warnings.simplefilter("ignore")
            try:
                if w["decoy_caller"]:
                    probe("another_thread_with_its_own_collocator")
                    from sim.linepreempt import periodic_points as _pp
                    sim.line_preempt = LinePreempt(
                        sim, [cmod, gmod], _pp(1 + w["decoy_stride"] % 4, w["decoy_stride"], 600),
                        only="caller", store_points=_pp(1, 1 + w["decoy_stride"] % 3, 600))

                    def _decoy():
                        other = _T["Collocator"]()
                        for rep_ in range(3):
                            P_, _ = materialise(w["pool"][rep_ % len(w["pool"])])
                            S_, _ = materialise(w["pool"][-1])
                            try:
                                other.collocate(P_, S_, max_interval=timedelta(seconds=900),
                                                max_distance=300.0)
                            except Exception:  # noqa: not the object under test
                                pass
                            plan.take_fired()
                            sim.yield_("decoy")

                    def _both():
                        a = sim.spawn("caller-main", _calls)
                        b = sim.spawn("caller-decoy", _decoy)
                        sim.block_until(lambda: a.done and b.done, "join")
                        for t_ in (a, b):
                            if t_.exc is not None:
                                raise t_.exc
                    sim.run(_both)
                else:
                    sim.run(_calls)
            except StepCap as e:
                V.append(_viol("C04/no-termination", str(e)))
            except Deadlock as e:
                V.append(_viol("C04/deadlock", str(e)))
    finally:
        SimPoolBase.sim = None
        SimPoolBase.registry = None
    if sim.line_preempt is not None and sim.line_preempt.fired:
        probe("line_preemptions_in_pool_workers")
    seen, uniq = set(), []
    for v in V:
        if v["signature"] not in seen:
            seen.add(v["signature"])
            uniq.append(v)
    res["violations"] = uniq
    res["probes"] = probes
    res["executions"] = max(1, len(w["calls"]))
    res["nontrivial"] = nontrivial > 0
    res["wdigest"] = digest_of({k: v for k, v in w.items() if k not in ("perm", "perm_seed")})
    res["edigest"] = digest_of([w["perm"], w["perm_seed"], answers])
    res["faults"] = {"permutation_" + w["perm"]: 1}
    res["faults"].update(plan.fired)
    res["kinds"] = [f"perm={w['perm']}"]
    res["counters"] = {"calls": len(w["calls"])}
    res["sample"] = {
        "pool": [{"layout": d["layout"], "points": d.get("n") or len(d.get("pts", [])) or
                  d.get("lines", 0) * d.get("pos", 0)} for d in w["pool"]],
        "calls": [{k: v for k, v in c.items() if k not in ("rsel",)} for c in w["calls"]],
        "permutation": w["perm"],
    }
    return res
