"""C11 - files written, moved, copied or deleted through a FileSet are conserved.

Stateful simulation of a store: the real FileSet classes on a scratch tree, a
reference model {path -> (payload, coverage, placeholder values, bytes digest)}
owned by the harness, operations drawn from the tape, tree listing and contents
compared after every step.  move()/delete() go through FileSet.map, i.e. through
the simulated (process) pools, so their per-file tasks are interleaved by the
scheduler.
"""
import contextlib
import hashlib
import io
import os
import pickle
import shutil
import warnings
from datetime import datetime, timedelta

import numpy as np

from sim.kernel import Sim, make_policy, StepCap, Deadlock
from sim.executors import SimPoolBase, SimThreadPool, SimProcessPool
from sim.runner import new_result, scratch_root
from sim.seams import patched, NoGC, import_typhon, fresh_dir
from sim.seams import deterministic_tempnames
from sim import digest_of
from props import naming

PROPERTY_ID = "C11"
LEVEL = "exploration"
RULE = (
    "one case = one seeded history of 3-12 operations (write / overwrite / read "
    "/ collect / find / move / copy / delete / dry-run delete, selections by "
    "period, files= and filters, target templates that change the layout) on "
    "1-3 filesets (pickle user handler, compression suffixes, CSV, NetCDF4), "
    "executed against the real FileSet on a scratch tree with the per-file "
    "tasks of move/delete interleaved by the seeded scheduler; the tree listing "
    "and every file's content are compared with the reference model after each "
    "operation. Non-trivial = >= 2 state-changing operations of which >= 1 is a "
    "move/copy/delete that selected >= 1 file. Distinct = distinct (history "
    "digest, event-order digest) pairs.")
ASSUMPTIONS = [
    "equality per handler: pickle = equal object; CSV = same table (columns and "
    "values, NaN-aware, index ignored); NetCDF4 = xarray identical() (values, "
    "dims, coords, attributes) and equal dtypes, for a catalogue of data sets "
    "that survive xarray's own to_netcdf/open_dataset round trip unchanged",
    "NetCDF pseudo groups only one level deep and on dimensions of their own: "
    "groups inheriting a dimension already fail in the pinned suite "
    "(test_dimension_mapping)",
    "target templates never map two selected files to one name and use only "
    "placeholders the source files carry",
    "no I/O faults are injected (the property states none); the recorded "
    "'faults' are pre-emptions of a per-file task inside the reader/writer or "
    "right before a file-system call; periods avoid file boundaries (C01 covers "
    "those)",
]
COMPONENTS = {
    "real": ["typhon.files.fileset (write/__setitem__, read, collect, find, move, "
             "delete, map, get_filename, get_info)", "typhon.files.utils "
             "(compress/decompress)", "CSV and NetCDF4 handlers", "scratch tree"],
    "stub": ["ThreadPoolExecutor/ProcessPoolExecutor (sim.executors)", "gc.collect",
             "LocalFileSystem subclass that adds a scheduling point before each "
             "isdir/isfile/makedirs/copy/move (the calls themselves are real)"],
}
DEFAULTS = {
    "quick": {"budget_s": 45, "chunk": 10, "per_run_wall": 180, "minimise_s": 90},
    "thorough": {"budget_s": 900, "chunk": 30, "per_run_wall": 180,
                 "minimise_s": 300},
}
REQUIRED_PROBES = ["move_selected", "copy_selected", "delete_selected",
                   "dry_run_selected", "move_convert", "layout_changed",
                   "compressed_written", "later_finished_before_earlier"]

_T = {}
BASE = datetime(2019, 2, 27)       # crosses a month end (see BASES for the others)


def setup():
    import_typhon()
    import typhon.files.fileset as fsmod
    from typhon.files import FileSet
    from typhon.files.handlers.common import FileHandler, FileInfo
    import xarray as xr
    import pandas as pd
    _T.update(fsmod=fsmod, FileSet=FileSet, FileHandler=FileHandler,
              FileInfo=FileInfo, xr=xr, pd=pd)
    from sim.seams import typhon_state
    _T["state"] = typhon_state()


# ------------------------------------------------------- user (pickle) handler
SIM = [None]      # the running simulation (reached by the pickled-by-name callbacks)


PREEMPT = {}      # per run: scheduling decisions with a real choice, per site class


def _yield(label):
    sim = SIM[0]
    if sim is not None and sim.me() is not None:
        d0 = sim.stats["decisions_gt1"]
        sim.yield_(label)
        if sim.stats["decisions_gt1"] > d0:
            k = ("preempt_in_reader_writer" if label.startswith(("reader", "writer"))
                 else "preempt_before_fs_call")
            PREEMPT[k] = PREEMPT.get(k, 0) + 1


def p_reader(file_info, tag=None):
    _yield("reader:in")
    with open(file_info.path, "rb") as f:
        data = pickle.load(f)
    _yield("reader:out")
    if tag is not None:
        data = dict(data, read_tag=tag)
    return data


WFAULT = [None]       # (serial, partial): the writer fails once for this data set


class _EndHistory(Exception):
    """A fault was injected: the verdict is in, the model is void from here."""


def p_writer(data, file_info, wtag=None):
    if wtag is not None:
        data = dict(data, write_tag=wtag)
    _yield("writer:in")
    wf = WFAULT[0]
    if wf is not None and isinstance(data, dict) and data.get("serial") == wf[0]:
        WFAULT[0] = None
        PREEMPT["enospc_in_converting_write"] = \
            PREEMPT.get("enospc_in_converting_write", 0) + 1
        if wf[1]:
            with open(file_info.path, "wb") as f:     # a torn target
                f.write(pickle.dumps(data, protocol=4)[:7])
        raise OSError(28, "injected ENOSPC in the handler's write")
    with open(file_info.path, "wb") as f:
        pickle.dump(data, f, protocol=4)
    # other tasks may run between writing the (temporary) file and the
    # compression / end of the write call
    _yield("writer:out")


def post_reader(file_info, data):
    return dict(data, post=True)


def converter(data):
    return dict(data, converted=True)


from sim.fsseam import SimLocalFS, HOOK as _FS_HOOK


TEMPLATES = [
    "{sat}/{year}/{month}/{day}/{hour}{minute}{second}-{end_hour}{end_minute}{end_second}",
    "{year}{month}{day}_{hour}{minute}{second}_{end_year}{end_month}{end_day}_"
    "{end_hour}{end_minute}{end_second}_{sat}",
    "{year}/{doy}/{sat}_{hour}{minute}{second}",
    "{year2}{month}{day}{hour}{minute}{second}{millisecond}-{sat}",
    "flat_{sat}/{year}-{month}-{day}T{hour}{minute}{second}",
    "{year}{doy}_{hour}{minute}{second}-{end_year}{end_doy}_{end_hour}{end_minute}"
    "{end_second}_{sat}",
    "{sat}/{year}/{doy}/{hour}{minute}{second}",
]
BASES = [datetime(2019, 2, 27), datetime(2019, 12, 30, 18), datetime(2020, 12, 31, 6),
         datetime(2020, 2, 28, 12)]
EXTS = {"pickle": [".dat", ".bin"], "pickle_z": [".dat.gz", ".dat.bz2", ".dat.zip",
                                                  ".dat.xz"],
        "csv": [".csv", ".txt"], "nc": [".nc"]}
SATS = ["a", "bb", "n18"]


def gen_workload(tape):
    w = {}
    kind = tape.pick(["pickle", "pickle", "pickle_z", "csv", "pickle", "nc"], "kind")
    w["kind"] = kind
    w["tmpl"] = tape.choice(len(TEMPLATES), "tmpl")
    w["ext"] = tape.pick(EXTS[kind], "ext")
    w["time_coverage"] = tape.pick([None, None, 600, 3600], "tcov")
    w["read_args"] = kind.startswith("pickle") and tape.flag("read_args", 1, 4)
    w["write_args"] = kind.startswith("pickle") and tape.flag("write_args", 1, 4)
    w["post_reader"] = kind.startswith("pickle") and tape.flag("post_reader", 1, 4)
    w["worker_type"] = tape.pick([None, "thread", "process"], "wtype")
    # transparent decompression switched off (only where nothing is compressed)
    w["decompress_off"] = kind != "pickle_z" and tape.flag("decompress_off", 1, 4)
    w["max_workers"] = tape.pick([None, 1, 2, 3], "workers")
    w["odd_base"] = tape.flag("odd_base", 1, 4)      # '//' and '/./' in the templates
    ops = []
    n = tape.count(3, 12, "nops", (5, 6))
    serial = 0
    for i in range(n):
        kinds = ["write", "write", "write", "move", "copy", "delete", "dry_delete",
                 "collect", "find", "overwrite", "read", "move", "single"]
        op = tape.pick(kinds, "op") if i >= 2 else "write"
        o = {"op": op}
        if op in ("write", "overwrite"):
            o["slot"] = tape.choice(40, "slot")        # start = BASE + slot * 1h7m
            o["sec"] = tape.choice(60, "sec")
            o["dur"] = tape.pick([0, 30, 3600, 21540, 90], "dur")
            o["sat"] = tape.pick(SATS, "sat")
            o["via"] = tape.pick(["setitem", "write"], "via")
            o["dup_of"] = tape.choice(12, "dup_of") if tape.flag("dup", 1, 4) else None
            o["dup_days"] = tape.pick([0, 1, 0, -1], "dup_days")
            o["layout"] = tape.choice(2, "layout")     # overwrite may change the layout
            # NetCDF: 0 the default data set, else one of the catalogue
            o["ncv"] = tape.choice(NC_VARIANTS, "ncv") if tape.flag("ncvar", 1, 2) else 0
            o["serial"] = serial
            serial += 1
        elif op in ("move", "copy", "delete", "dry_delete", "collect", "find"):
            o["fs"] = tape.choice(3, "which_fs")
            o["sel"] = tape.pick(["all", "period", "files", "filter", "blacklist"], "sel")
            if o["sel"] == "period":
                a = tape.choice(46, "p0")
                o["period"] = [a, a + 1 + tape.choice(46 - a, "p1")]
            elif o["sel"] == "files":
                o["keep"] = [tape.flag("keep", 2, 3) for _ in range(12)]
            elif o["sel"] in ("filter", "blacklist"):
                o["sat"] = tape.pick(SATS, "fsat")
            if op in ("move", "copy"):
                o["tmpl"] = tape.choice(len(TEMPLATES), "ttmpl")
                o["dir"] = tape.choice(4, "tdir")
                o["convert"] = tape.pick([False, False, True, "callable"], "convert")
                o["as_fileset"] = tape.flag("as_fileset", 1, 2)
                o["ext"] = tape.choice(4, "text")
                # "move" onto the fileset's own template with convert set:
                # every file keeps its name and is rewritten in place
                o["inplace"] = op == "move" and tape.flag("inplace", 1, 8)
                # the handler's write fails (disk full) for one of the files
                # while move(convert=...) is under way: nothing may be lost
                o["write_fault"] = tape.choice(12, "wfault") \
                    if o["convert"] and tape.flag("wf", 1, 5) else None
                o["wf_partial"] = tape.flag("wf_partial", 1, 2)
                # afterwards the caller stores new data for one of the moved
                # periods in the source fileset and reads it back
                o["rewrite_after"] = op == "move" and tape.flag("rewrite_after", 1, 3)
        elif op == "read":
            o["fs"] = tape.choice(3, "which_fs")
            o["idx"] = tape.choice(12, "ridx")
            # one read with arguments of its own (they take precedence for
            # this call only), followed by an ordinary read
            o["call_args"] = tape.flag("call_args", 1, 3)
        elif op == "single":
            # a single-file fileset (path without placeholders) is moved /
            # copied / converted: the branch that does not go through map()
            o["copy"] = tape.flag("scopy", 1, 2)
            o["convert"] = tape.flag("sconvert", 1, 2)
            o["as_fileset"] = tape.flag("sasfs", 1, 2)
            o["serial"] = 900 + i
        ops.append(o)
    w["ops"] = ops
    w["base"] = tape.choice(len(BASES), "base")
    return w


# --------------------------------------------------------------------- model
class MSet:
    def __init__(self, idx, tmpl_i, ext, kind, root, subdir, w):
        self.idx, self.tmpl_i, self.ext, self.kind = idx, tmpl_i, ext, kind
        self.template = f"{root}/data/{subdir}/" + TEMPLATES[tmpl_i] + ext
        # the same template as a user may spell it (doubled separator, /./):
        # names are compared in normalised form
        self.spelled = f"{root}/data//{subdir}/./" + TEMPLATES[tmpl_i] + ext \
            if w.get("odd_base") else self.template
        self.tcov = timedelta(seconds=w["time_coverage"]) if w["time_coverage"] else None
        self.obj = None
        self.subdir = subdir


class MFile:
    __slots__ = ("path", "fs", "cov", "sat", "payload", "sha", "verbatim_kind")

    def __init__(self, path, fs, cov, sat, payload, sha, vk):
        self.path, self.fs, self.cov, self.sat = path, fs, cov, sat
        self.payload, self.sha, self.verbatim_kind = payload, sha, vk


def _unpickle_any(path):
    """Read a pickle payload with the standard library only (by suffix)."""
    import bz2
    import gzip
    import lzma
    import zipfile
    if path.endswith(".gz"):
        with gzip.open(path, "rb") as f:
            return pickle.load(f)
    if path.endswith(".bz2"):
        with bz2.open(path, "rb") as f:
            return pickle.load(f)
    if path.endswith(".xz"):
        with lzma.open(path, "rb") as f:
            return pickle.load(f)
    if path.endswith(".zip"):
        with zipfile.ZipFile(path) as z:
            return pickle.loads(z.read(z.namelist()[0]))
    with open(path, "rb") as f:
        return pickle.load(f)


def _sha(path):
    with open(path, "rb") as f:
        return hashlib.sha256(f.read()).hexdigest()


def _nc_variant(v, serial, xr):
    """NetCDF data sets beyond the default one: every dtype the format has,
    NaN/inf/NaT, packed (scale/offset/fill value) and time encodings,
    attributes, scalars and several dimensions, strings, pseudo groups, empty
    dimensions.  Each of them survives xarray's own to_netcdf/open_dataset
    round trip unchanged (checked when the catalogue was written), so the
    handler has to give back an identical data set."""
    t = np.array(["2019-02-27T00:00:00", "2019-02-27T00:00:01.5",
                  "2019-03-01T12:00:00"], dtype="M8[ns]") + np.timedelta64(serial, "s")
    k = serial % 50
    if v == 1:
        ds = xr.Dataset({
            "i8": ("time", np.array([k, -3, 127], dtype="int8")),
            "i16": ("time", np.array([k, -300, 32767], dtype="int16")),
            "i64": ("time", np.array([k, -2 ** 40, 2 ** 62], dtype="int64")),
            "u8": ("time", np.array([k, 0, 255], dtype="uint8")),
            "u16": ("time", np.array([k, 0, 65535], dtype="uint16")),
            "u32": ("time", np.array([k, 0, 2 ** 32 - 1], dtype="uint32")),
            "f32": ("time", np.array([k + 0.25, -1e30, 1e-30], dtype="float32")),
            "flag": ("time", np.array([True, False, bool(k % 2)])),
        }, coords={"time": t})
    elif v == 2:
        ds = xr.Dataset({
            "f": ("time", np.array([np.nan, np.inf, -0.0]) + 0.0),
            "g": ("time", np.array([k + 0.5, -np.inf, np.nan], dtype="float32")),
            "obs": ("time", np.array([t[0], np.datetime64("NaT"), t[2]], dtype="M8[ns]")),
            "lag": ("time", np.array([k, 2, 86400 * 3], dtype="m8[s]").astype("m8[ns]")),
        }, coords={"time": t})
    elif v == 3:
        ds = xr.Dataset({
            "packed": ("time", np.array([1.5 + k, 2.5, np.nan])),
            "packed32": ("time", np.array([0.25 * k, -8.0, 100.75], dtype="float32")),
        }, coords={"time": t})
        ds["packed"].encoding = {"dtype": "int16", "scale_factor": 0.5,
                                 "add_offset": 1.0, "_FillValue": -9999}
        ds["packed32"].encoding = {"dtype": "int32", "scale_factor": np.float32(0.25),
                                   "_FillValue": -2 ** 31}
    elif v == 4:
        ds = xr.Dataset({"obs": ("time", t + np.timedelta64(k, "m")),
                         "x": ("time", [1.0 * k, 2.0, 3.0])}, coords={"time": t})
        ds["obs"].encoding = {"units": "seconds since 2000-01-01", "dtype": "float64"}
        ds["time"].encoding = {"units": "milliseconds since 1970-01-01", "dtype": "int64"}
    elif v == 5:
        ds = xr.Dataset({"v": ("time", [1.0 * k, 2.0, 3.0])}, coords={"time": t},
                        attrs={"title": f"serial {serial}", "n": np.int32(k),
                               "f": 1.5, "arr": np.array([1, 2, k], dtype="int64")})
        ds["v"].attrs = {"units": "K", "valid": np.array([0.0, 1.0 + k]),
                         "long_name": "a b/c"}
        ds["time"].attrs = {"comment": "start of scan"}
    elif v == 6:
        ds = xr.Dataset({
            "cube": (("time", "ch", "lev"), np.arange(12.0).reshape(3, 2, 2) + k),
            "scalar": ((), 5.0 + k),
            "iscalar": ((), np.int16(k)),
            "byn": ("n", np.array([1.5, k], dtype="float32")),
        }, coords={"time": t, "n": [7, 10], "ch": np.array([1, 2], dtype="int8")})
    elif v == 7:
        ds = xr.Dataset({
            "name": ("time", np.array(["a", "bb", f"s{k}"], dtype=object)),
            "code": ("time", np.array(["x", f"{k:03d}", ""])),
            "z": ("time", [1.0 * k, 2.0, 3.0]),
        }, coords={"time": t})
        ds["z"].encoding = {"zlib": True, "complevel": 4}
    elif v == 8:
        ds = xr.Dataset({
            # (one level only: a pseudo group that inherits a dimension
            # cannot be read back - the pinned test_dimension_mapping fails on
            # that already, see DESIGN.md section 11, observations)
            # and only dimensions of their own: a group variable on a root
            # dimension is unreadable once the root group was written first)
            "g1/v": ("g1/m", [1.0 * k, 2.0, 3.0, 4.0]),
            "g1/w": ("g1/m", np.array([k, 2, 3, 4], dtype="int32")),
            "g2/own": ("g2/n", [0.5, 1.0 * k]),
            "top": ("time", [k, 2, 3]),
        }, coords={"time": t}, attrs={"serial": np.int64(serial)})
    else:
        ds = xr.Dataset({"v": ("time", np.array([], dtype="float64")),
                         "k": ((), np.int64(k))},
                        coords={"time": np.array([], dtype="M8[ns]")})
    return ds


NC_VARIANTS = 10


def _payload(kind, serial, xr, layout=0, ncv=0):
    if ncv and kind == "nc":
        return _nc_variant(ncv, serial, xr)
    if layout and kind == "nc":
        # a different layout: fewer variables, other attributes
        t = np.array(["2019-02-27T00:00:00", "2019-02-27T06:00:00"],
                     dtype="M8[ns]") + np.timedelta64(serial, "s")
        return xr.Dataset({"temp": ("time", np.array([9.5 + serial, np.nan]))},
                          coords={"time": t}, attrs={"version": f"v{serial}"})
    if layout and kind == "csv":
        return xr.Dataset({"a": ("index", [serial, 5])})
    if kind.startswith("pickle"):
        return {"serial": serial, "blob": [serial, "x" * (serial % 7)]}
    if kind == "csv":
        return xr.Dataset({
            "a": ("index", [serial, serial + 1, 7]),
            "b": ("index", [0.5 * serial, np.nan, 2.25]),
            "s": ("index", [f"r{serial}", "y", "z z"])})
    t = np.array(["2019-02-27T00:00:00", "2019-02-27T00:00:01.5",
                  "2019-03-01T12:00:00"], dtype="M8[ns]") + np.timedelta64(serial, "s")
    return xr.Dataset({
        "temp": ("time", np.array([1.5 + serial, np.nan, -3.0])),
        "count": ("time", np.array([serial, 2, 3], dtype="int32")),
        "obs": ("time", t),
        "grid": (("time", "ch"), np.arange(6, dtype="float32").reshape(3, 2) + serial),
    }, coords={"time": t})


def _equal(kind, a, b):
    if a is None or b is None:
        return a is b
    if kind.startswith("pickle"):
        return a == b
    if kind == "csv":
        pd = _T["pd"]
        da = a.to_dataframe().reset_index(drop=True)
        db = b.to_dataframe().reset_index(drop=True)
        da = da[[c for c in da.columns if c != "index"]]
        db = db[[c for c in db.columns if c != "index"]]
        if sorted(da.columns) != sorted(db.columns) or len(da) != len(db):
            return False
        for c in da.columns:
            x, y = da[c].to_numpy(), db[c].to_numpy()
            for u, v in zip(x, y):
                if isinstance(u, float) and isinstance(v, float) and \
                        np.isnan(u) and np.isnan(v):
                    continue
                if u != v:
                    return False
        return True
    try:
        if "index" in getattr(b, "dims", {}) and "time" not in getattr(b, "dims", {}):
            return _equal("csv", a, b)     # a CSV table converted to NetCDF
        if not a.identical(b):
            return False
        return all(a[v].dtype == b[v].dtype or
                   (a[v].dtype.kind in "OU" and b[v].dtype.kind in "OU")
                   for v in b.variables)
    except Exception:  # noqa
        return False


def _viol(sig, msg, extra=None):
    return {"signature": sig, "message": msg, "extra": extra}


# ------------------------------------------------------------------- the run
class Run:
    def __init__(self, w, root, sim):
        self.w, self.root, self.sim = w, root, sim
        self.sets = []
        self.files = {}          # path -> MFile
        self.V = []
        self.state_changes = 0
        self.selected_ops = 0
        self.base = BASES[w.get("base", 0)]
        self.log = sim.event

    # -- filesets ---------------------------------------------------------------
    def make_set(self, tmpl_i, ext, kind, subdir):
        FileSet, FileHandler = _T["FileSet"], _T["FileHandler"]
        w = self.w
        ms = MSet(len(self.sets), tmpl_i, ext, kind, self.root, subdir, w)
        kw = {}
        if kind.startswith("pickle"):
            kw["handler"] = FileHandler(reader=p_reader, writer=p_writer)
            if w["read_args"]:
                kw["read_args"] = {"tag": "RA"}
            if w["write_args"]:
                kw["write_args"] = {"wtag": "WA"}
            if w["post_reader"]:
                kw["post_reader"] = post_reader
        if w["worker_type"]:
            kw["worker_type"] = w["worker_type"]
        if w.get("decompress_off") and _suffix_class(ext) == "plain":
            kw["decompress"] = False
        ms.obj = FileSet(ms.spelled, name=f"S{ms.idx}", time_coverage=ms.tcov,
                         max_processes=3, max_threads=2, fs=SimLocalFS(), **kw)
        self.sets.append(ms)
        return ms

    def expected_read(self, mf):
        """What reading mf through its fileset must give."""
        p = mf.payload
        ms = self.sets[mf.fs]
        if ms.kind.startswith("pickle") and isinstance(p, dict):
            p = dict(p)
            if self.w["read_args"]:
                p["read_tag"] = "RA"
            if self.w["post_reader"]:
                p["post"] = True
        return p

    # -- comparison after every operation ------------------------------------------
    def compare(self, where):
        data = os.path.join(self.root, "data")
        on_disk = set()
        for dp, dn, fn in os.walk(data):
            for f in fn:
                on_disk.add(os.path.join(dp, f))
        want = set(self.files)
        if on_disk != want:
            missing = sorted(want - on_disk)
            extra = sorted(on_disk - want)
            self.V.append(_viol(
                f"C11/{where}/tree-differs",
                f"after {where}: missing {[_r(self, p) for p in missing[:4]]}, "
                f"unexpected {[_r(self, p) for p in extra[:4]]}"))
            # resynchronise so that later steps do not repeat the same report
            for p in missing:
                del self.files[p]
            for p in extra:
                os.remove(p)
            return
        for p, mf in self.files.items():
            if mf.sha is not None and _sha(p) != mf.sha:
                self.V.append(_viol(
                    f"C11/{where}/bytes-changed",
                    f"after {where}: {_r(self, p)} was modified"))
                mf.sha = _sha(p)

    def check_content(self, mf, where):
        ms = self.sets[mf.fs]
        if mf.verbatim_kind is not None and mf.verbatim_kind != _suffix_class(ms.ext):
            return      # moved verbatim under a name of another format: bytes only
        try:
            got = ms.obj.read(mf.path)
        except Exception as e:  # noqa
            self.V.append(_viol(f"C11/{where}/unreadable",
                                f"{_r(self, mf.path)}: {type(e).__name__}: {e}"[:300]))
            return
        if not _equal(ms.kind, got, self.expected_read(mf)):
            self.V.append(_viol(
                f"C11/{where}/content-differs/{ms.kind}",
                f"{_r(self, mf.path)}: read {_short(got)} expected "
                f"{_short(self.expected_read(mf))}"))

    # -- selections ---------------------------------------------------------------------
    def select(self, ms, o):
        """Returns (kwargs for find-like calls, model files selected)."""
        mine = sorted((f for f in self.files.values() if f.fs == ms.idx),
                      key=lambda f: (f.cov[0], f.cov[1], f.path))
        sel = o["sel"]
        if sel == "all":
            return {}, mine
        if sel == "period":
            a, b = o["period"]
            start = self.base + timedelta(minutes=67 * a - 20, seconds=0.5)
            end = self.base + timedelta(minutes=67 * b - 20, seconds=0.5)
            return ({"start": start, "end": end},
                    [f for f in mine if f.cov[0] < end and f.cov[1] >= start])
        if sel == "files":
            infos = list(ms.obj.find(no_files_error=False))
            keep = [fi for i, fi in enumerate(infos) if o["keep"][i % 12]]
            paths = {fi.path for fi in keep}
            return {"files": keep}, [f for f in mine if f.path in paths]
        if sel == "filter":
            return ({"filters": {"sat": o["sat"]}},
                    [f for f in mine if f.sat == o["sat"]])
        return ({"filters": {"!sat": o["sat"]}},
                [f for f in mine if f.sat != o["sat"]])

    # -- operations ---------------------------------------------------------------------
    def op(self, i, o):
        kind = o["op"]
        w = self.w
        xr = _T["xr"]
        if kind in ("write", "overwrite"):
            ms = self.sets[0]
            if kind == "overwrite":
                mine = sorted(f.path for f in self.files.values() if f.fs == 0)
                if not mine:
                    return
                old = self.files[mine[o["slot"] % len(mine)]]
                t0, t1, sat = old.cov[0], old.cov[1], old.sat
            else:
                t0 = self.base + timedelta(minutes=67 * o["slot"], seconds=o["sec"])
                if o.get("dup_of") is not None:
                    mine = sorted(f.path for f in self.files.values() if f.fs == 0)
                    if mine:      # same time of day as an existing file, other day/sat
                        ref = self.files[mine[o["dup_of"] % len(mine)]].cov[0]
                        t0 = ref + timedelta(days=o["dup_days"])
                t1 = t0 + timedelta(seconds=o["dur"])
                sat = o["sat"]
            path = naming.fmt(ms.template, t0, t1, sat=sat)
            cov = naming.coverage(ms.template, t0, t1, ms.tcov)
            if cov is None:
                return
            payload = _payload(ms.kind, o["serial"], xr,
                               o.get("layout", 0) if kind == "overwrite" else 0,
                               o.get("ncv", 0))
            if ms.kind == "nc" and o.get("ncv"):
                self.sim.probe(f"netcdf_variant_{o['ncv']}")
            if kind == "overwrite" and o.get("layout"):
                self.sim.probe("overwrite_with_other_layout")
            stored = payload
            if ms.kind.startswith("pickle") and w["write_args"]:
                stored = dict(payload, write_tag="WA")
            if o["via"] == "setitem":
                ms.obj[(slice(t0, t1), {"sat": sat})] = payload
            else:
                name = ms.obj.get_filename((t0, t1), fill={"sat": sat})
                ms.obj.write(payload, name)
            self.log("op", i, kind, _r(self, path))
            if os.path.exists(path):
                self.files[path] = MFile(path, 0, cov, sat, stored, _sha(path), None)
                self.state_changes += 1
            else:
                self.V.append(_viol(
                    "C11/write/wrong-name",
                    f"writing [{t0}, {t1}] sat={sat}: expected file "
                    f"{_r(self, path)} does not exist"))
            self.compare(kind)
            if path in self.files:
                self.check_content(self.files[path], kind)
                if ms.kind == "pickle_z":
                    self.sim.probe("compressed_written")
            return
        if kind == "single":
            self.single_file_move(i, o)
            return
        if o["fs"] >= len(self.sets):
            return
        ms = self.sets[o["fs"]]
        mine_all = [f for f in self.files.values() if f.fs == ms.idx]
        if not mine_all:
            return
        if kind == "read":
            mine = sorted(mine_all, key=lambda f: f.path)
            mf = mine[o["idx"] % len(mine)]
            if o.get("call_args") and ms.kind.startswith("pickle") and \
                    (mf.verbatim_kind is None or mf.verbatim_kind == _suffix_class(ms.ext)):
                self.sim.probe("read_with_arguments_of_its_own")
                try:
                    got = ms.obj.read(mf.path, tag="ONCE")
                    want = dict(self.expected_read(mf), read_tag="ONCE")
                    if got != want:
                        self.V.append(_viol(
                            "C11/read/per-call-arguments",
                            f"read(..., tag='ONCE') gave {_short(got)}, expected "
                            f"{_short(want)}"))
                except Exception as e:  # noqa
                    self.V.append(_viol(f"C11/read/exception/{type(e).__name__}",
                                        f"{e}"[:300]))
            self.check_content(mf, "read")
            return
        kw, chosen = self.select(ms, o)
        extra = {}
        if w["max_workers"]:
            extra["max_workers"] = w["max_workers"]
        if kind == "find":
            try:
                got = [fi.path for fi in ms.obj.find(no_files_error=False, **{
                    k: v for k, v in kw.items() if k != "files"})]
            except Exception as e:  # noqa
                self.V.append(_viol("C11/find/exception", f"{type(e).__name__}: {e}"[:300]))
                return
            if o["sel"] == "files":
                return
            if sorted(got) != sorted(f.path for f in chosen):
                self.V.append(_viol(
                    "C11/find/differs",
                    f"find({_kw(kw)}) gave {[_r(self, p) for p in got[:5]]} expected "
                    f"{[_r(self, f.path) for f in chosen[:5]]}"))
            return
        if kind == "collect":
            if not chosen:
                return
            try:
                if o["sel"] == "period":
                    got = ms.obj[kw["start"]:kw["end"]]
                else:
                    got = ms.obj.collect(**kw, **extra)
            except Exception as e:  # noqa
                self.V.append(_viol("C11/collect/exception",
                                    f"{type(e).__name__}: {e}"[:300]))
                return
            verb = [f for f in chosen if f.verbatim_kind is not None
                    and f.verbatim_kind != _suffix_class(ms.ext)]
            if verb:
                return
            exp = [self.expected_read(f) for f in chosen]
            if len(got) != len(exp) or not all(
                    _equal(ms.kind, g, e) for g, e in zip(got, exp)):
                self.V.append(_viol(
                    f"C11/collect/differs/{ms.kind}",
                    f"collect({_kw(kw)}) returned {len(got)} item(s) "
                    f"{[_short(g) for g in got[:3]]}, expected {len(exp)} "
                    f"{[_short(e) for e in exp[:3]]}"))
            return
        if kind in ("delete", "dry_delete"):
            buf = io.StringIO()
            try:
                with contextlib.redirect_stdout(buf):
                    ms.obj.delete(dry_run=(kind == "dry_delete"), **kw, **extra)
            except Exception as e:  # noqa
                if not chosen and type(e).__name__ == "NoFilesError":
                    return
                self.V.append(_viol(f"C11/{kind}/exception",
                                    f"{type(e).__name__}: {e}"[:300]))
                self.compare(kind)
                return
            self.log("op", i, kind, len(chosen))
            if chosen:
                self.selected_ops += 1
                self.sim.probe("delete_selected" if kind == "delete" else "dry_run_selected")
            if kind == "delete":
                for f in chosen:
                    del self.files[f.path]
                self.state_changes += 1
            self.compare(kind)
            if kind == "delete" and chosen:
                self.ask_for_removed(ms, chosen[o["fs"] % len(chosen)], kind)
            return
        # ---- move / copy ----------------------------------------------------------
        copy = kind == "copy"
        convert = o["convert"]
        if o.get("inplace") and convert and ms.kind.startswith("pickle"):
            self.sim.probe("convert_in_place")
            conv_arg = converter if convert == "callable" else True
            try:
                ms.obj.move(ms.spelled, convert=conv_arg, **kw, **extra)
            except Exception as e:  # noqa
                if not chosen and type(e).__name__ == "NoFilesError":
                    return
                self.V.append(_viol(f"C11/convert-in-place/exception/{type(e).__name__}",
                                    f"{type(e).__name__}: {e}"[:300]))
                self._resync()
                return
            for f in chosen:
                payload = self.expected_read(f)
                if convert == "callable":
                    payload = dict(payload, converted=True)
                if self.w["write_args"]:
                    payload = dict(payload, write_tag="WA")
                f.payload, f.sha, f.verbatim_kind = payload, None, None
            if chosen:
                self.state_changes += 1
                self.selected_ops += 1
            self.compare("convert-in-place")
            for f in chosen:
                if f.path in self.files:
                    f.sha = _sha(f.path)
                    self.check_content(f, "convert-in-place")
            return
        if convert and not ms.kind.startswith("pickle") and convert == "callable":
            convert = True
        tkind = ms.kind
        ext = ms.ext
        if convert and ms.kind.startswith("pickle"):
            # converting may also change the storage format of the copies
            pool = EXTS["pickle"] + ([] if self.w.get("decompress_off") else EXTS["pickle_z"])
            ext = pool[o["ext"] % len(pool)] if o["ext"] else ms.ext
            tkind = "pickle_z" if ext in EXTS["pickle_z"] else "pickle"
        as_fileset = o["as_fileset"]
        if convert and ms.kind == "csv" and o["ext"] % 2:
            # cross-handler conversion: CSV table -> NetCDF4 (needs a target
            # FileSet of its own: a path string keeps the source's handler)
            ext, tkind, as_fileset = ".nc", "nc", True
            self.sim.probe("convert_csv_to_netcdf")
        subdir = f"t{len(self.sets)}_{o['dir']}"
        dst = MSet(len(self.sets), o["tmpl"], ext, tkind, self.root, subdir, self.w)
        # new names under the harness's own formatter; refuse colliding plans
        plan = {}
        for f in chosen:
            np_ = naming.fmt(dst.template, f.cov[0], f.cov[1], sat=f.sat)
            if np_ in plan or np_ in self.files:
                return
            plan[np_] = f
        if as_fileset:
            target_ms = self.make_set(o["tmpl"], ext, tkind, subdir)
            target = target_ms.obj
        else:
            target_ms = None
            target = dst.spelled
        conv_arg = converter if convert == "callable" else bool(convert)
        faulted = None
        if convert and ms.kind.startswith("pickle") and plan and \
                o.get("write_fault") is not None:
            faulted = list(plan.values())[o["write_fault"] % len(plan)]
            WFAULT[0] = (faulted.payload.get("serial"), o["wf_partial"])
        try:
            ret = ms.obj.move(target, convert=conv_arg, copy=copy, **kw, **extra)
        except Exception as e:  # noqa
            if faulted is not None and WFAULT[0] is None:
                self.after_write_fault(kind, plan, copy, convert, tkind, target_ms or dst)
            WFAULT[0] = None
            if not chosen and type(e).__name__ == "NoFilesError":
                if target_ms is not None:
                    self.sets.pop()
                return
            self.V.append(_viol(f"C11/{kind}/exception/{type(e).__name__}",
                                f"{kind}(convert={convert}, sel={o['sel']}): "
                                f"{type(e).__name__}: {e}"[:300]))
            self._resync()
            return
        if faulted is not None and WFAULT[0] is None:
            # the failure did not reach the caller: still nothing may be lost
            self.after_write_fault(kind, plan, copy, convert, tkind, target_ms or dst)
        WFAULT[0] = None
        self.log("op", i, kind, len(chosen), "convert", convert)
        if target_ms is None:
            target_ms = dst
            target_ms.obj = ret
            self.sets.append(target_ms)
        if chosen:
            self.selected_ops += 1
            self.state_changes += 1
            self.sim.probe("copy_selected" if copy else "move_selected")
            if convert:
                self.sim.probe("move_convert")
            if o["tmpl"] != ms.tmpl_i:
                self.sim.probe("layout_changed")
        for np_, f in plan.items():
            payload = f.payload
            if convert:
                payload = self.expected_read(f)       # read through the source set
                if convert == "callable":
                    payload = dict(payload, converted=True)
                if tkind.startswith("pickle") and self.w["write_args"]:
                    payload = dict(payload, write_tag="WA")
            cov = naming.coverage(target_ms.template, f.cov[0], f.cov[1], target_ms.tcov)
            vk = None if convert else (f.verbatim_kind or _suffix_class(ms.ext))
            sha = None if convert else f.sha
            self.files[np_] = MFile(np_, target_ms.idx, cov, f.sat, payload, sha, vk)
            if not copy:
                del self.files[f.path]
        self.compare(kind)
        for np_ in plan:
            if np_ in self.files:
                mf = self.files[np_]
                if mf.sha is None:
                    mf.sha = _sha(np_)
                self.check_content(mf, kind)
        if not copy and plan and not o.get("rewrite_after"):
            self.ask_for_removed(ms, list(plan.values())[o["ext"] % len(plan)], kind)
        if o.get("rewrite_after") and not copy and plan:
            old = list(plan.values())[o["ext"] % len(plan)]
            if old.path not in self.files:
                self.sim.probe("moved_period_written_again")
                payload = _payload(ms.kind, 500 + i, _T["xr"])
                stored = payload
                if ms.kind.startswith("pickle") and w["write_args"]:
                    stored = dict(payload, write_tag="WA")
                try:
                    name = ms.obj.get_filename((old.cov[0], old.cov[1]),
                                               fill={"sat": old.sat})
                    ms.obj.write(payload, name)
                except Exception as e:  # noqa
                    self.V.append(_viol(f"C11/rewrite/exception/{type(e).__name__}",
                                        f"{e}"[:300]))
                    raise _EndHistory()
                if os.path.exists(old.path):
                    self.files[old.path] = MFile(old.path, ms.idx, old.cov, old.sat,
                                                 stored, _sha(old.path), None)
                    self.state_changes += 1
                self.compare("rewrite")
                if old.path in self.files:
                    self.check_content(self.files[old.path], "rewrite")

    def ask_for_removed(self, ms, old, kind):
        """A file was removed from this fileset through the fileset (delete,
        move). Asking for exactly its start time must not produce it again."""
        if old.path in self.files:
            return
        self.sim.probe("asked_for_a_removed_file")
        try:
            fi = ms.obj.find_closest(old.cov[0])
        except Exception as e:  # noqa: nothing (left) to find is fine
            if type(e).__name__ in ("NoFilesError", "ValueError"):
                return
            self.V.append(_viol(f"C11/{kind}/find_closest/exception/{type(e).__name__}",
                                f"{e}"[:300]))
            return
        if fi is not None and not os.path.exists(fi.path):
            self.V.append(_viol(
                f"C11/{kind}/removed-file-still-answered",
                f"after {kind}: find_closest({old.cov[0]}) returns "
                f"{_r(self, fi.path)}, which does not exist"))

    def single_file_move(self, i, o):
        """move/copy/convert of a single-file fileset (outside the data tree)."""
        w = self.w
        if not w["kind"].startswith("pickle"):
            return
        FileSet, FileHandler = _T["FileSet"], _T["FileHandler"]
        d = os.path.join(self.root, "single", f"op{i}")
        os.makedirs(os.path.join(d, "to"))
        src, dst = os.path.join(d, "one.dat"), os.path.join(d, "to", "other.dat")
        kw = dict(handler=FileHandler(reader=p_reader, writer=p_writer), fs=SimLocalFS())
        payload = _payload("pickle", o["serial"], _T["xr"])
        self.sim.probe("single_file_fileset_moved")
        try:
            one = FileSet(src, name=f"ONE{i}", **kw)
            one.write(payload, src)
            sha = _sha(src)
            target = FileSet(dst, name=f"TO{i}", **kw) if o["as_fileset"] else dst
            one.move(target, copy=o["copy"], convert=o["convert"])
        except Exception as e:  # noqa
            self.V.append(_viol(f"C11/single/exception/{type(e).__name__}",
                                f"single-file move(copy={o['copy']}, "
                                f"convert={o['convert']}): {e}"[:300]))
            return
        desc = f"single-file move(copy={o['copy']}, convert={o['convert']})"
        if os.path.exists(src) != o["copy"]:
            self.V.append(_viol(
                "C11/single/original",
                f"{desc}: original {'removed' if o['copy'] else 'still there'}"))
        if not os.path.exists(dst):
            self.V.append(_viol("C11/single/target-missing", desc))
            return
        try:
            got = _unpickle_any(dst)
        except Exception as e:  # noqa
            self.V.append(_viol("C11/single/target-unreadable", f"{desc}: {e}"[:200]))
            return
        if got != payload:
            self.V.append(_viol("C11/single/content",
                                f"{desc}: target holds {_short(got)}"))
        if not o["convert"] and _sha(dst) != sha:
            self.V.append(_viol("C11/single/bytes-changed",
                                f"{desc}: the copy is not byte-identical"))
        if os.path.exists(src) and _sha(src) != sha:
            self.V.append(_viol("C11/single/original-changed", desc))

    def after_write_fault(self, kind, plan, copy, convert, tkind, target_ms):
        """The handler's write failed for one file of a converting move/copy.
        Conservation: each selected data set is still readable somewhere - the
        original is intact, or the complete converted copy exists."""
        self.sim.probe("write_fault_during_convert")
        for np_, f in plan.items():
            orig_ok = os.path.exists(f.path) and (f.sha is None or _sha(f.path) == f.sha)
            if orig_ok:
                continue
            ok = False
            if os.path.exists(np_):
                try:
                    got = _unpickle_any(np_)          # the harness's own reading
                    want = self.expected_read(f)
                    if convert == "callable":
                        want = dict(want, converted=True)
                    if isinstance(got, dict) and isinstance(want, dict):
                        ok = all(got.get(k) == v for k, v in want.items()
                                 if k in ("serial", "blob"))
                except Exception:  # noqa
                    ok = False
            if not ok:
                self.V.append(_viol(
                    f"C11/{kind}/data-lost-after-write-error",
                    f"{kind}(convert=...) with a failing write: "
                    f"{_r(self, f.path)} is gone and {_r(self, np_)} does not "
                    f"hold its data"))
                break
        raise _EndHistory()

    def _resync(self):
        data = os.path.join(self.root, "data")
        on_disk = set()
        for dp, dn, fn in os.walk(data):
            for f in fn:
                on_disk.add(os.path.join(dp, f))
        for p in list(self.files):
            if p not in on_disk:
                del self.files[p]
        for p in on_disk - set(self.files):
            os.remove(p)


def _suffix_class(ext):
    for z in (".gz", ".bz2", ".zip", ".xz"):
        if ext.endswith(z):
            return z
    return "plain"


def _r(run, p):
    return os.path.relpath(p, os.path.join(run.root, "data"))


def _short(x):
    s = repr(x) if isinstance(x, (dict, list, type(None))) else \
        f"<{type(x).__name__} {list(getattr(x, 'data_vars', []))}>"
    return s[:160]


def _kw(kw):
    return {k: (f"{len(v)} files" if k == "files" else str(v)) for k, v in kw.items()}


def run_one(tape, only=None):
    _T["state"].restore()      # each run models a fresh interpreter
    deterministic_tempnames()
    res = new_result()
    w = gen_workload(tape)
    policy = make_policy(tape)
    sim = Sim(tape, policy, step_cap=30000)
    root = fresh_dir(scratch_root(), "c11")
    os.makedirs(os.path.join(root, "data"))
    os.makedirs(os.path.join(root, "tmp"))
    run = Run(w, root, sim)
    fsmod = _T["fsmod"]
    SimPoolBase.sim, SimPoolBase.registry = sim, []
    SIM[0] = sim
    PREEMPT.clear()
    WFAULT[0] = None
    _FS_HOOK[0] = _yield
    outcome = {}
    import tempfile
    saved_tmp = tempfile.tempdir
    tempfile.tempdir = os.path.join(root, "tmp")
    try:
        def main():
            run.make_set(w["tmpl"], w["ext"], w["kind"], "src")
            for i, o in enumerate(w["ops"]):
                try:
                    run.op(i, o)
                except _EndHistory:
                    return
                except Exception as e:  # noqa: typhon raised in an operation
                    # of a legal history - a verdict, and the model is void
                    # from here on
                    if type(e).__module__.startswith("sim."):
                        raise
                    run.V.append(_viol(
                        f"C11/{o.get('op', '?')}/exception/{type(e).__name__}",
                        f"op {i} {o}: {type(e).__name__}: {e}"[:400]))
                    return
            left = os.listdir(os.path.join(root, "tmp"))
            if left:
                run.V.append(_viol("C11/temp-debris", f"{left[:3]} left in temp dir"))

        with patched((fsmod, "ThreadPoolExecutor", SimThreadPool),
                     (fsmod, "ProcessPoolExecutor", SimProcessPool),
                     (fsmod, "gc", NoGC)), warnings.catch_warnings():
            warnings.simplefilter("ignore")
            try:
                sim.run(main)
                outcome["end"] = "returned"
            except StepCap as e:
                outcome["end"] = "stepcap"
                if policy["kind"] != "pct":
                    run.V.append(_viol("C11/no-termination", str(e)))
            except Deadlock as e:
                outcome["end"] = "deadlock"
                run.V.append(_viol("C11/deadlock", str(e)))
        pools = list(SimPoolBase.registry)
        for p in pools:
            co = p.stats["completion_order"]
            if any(co[i] > co[i + 1] for i in range(len(co) - 1)):
                sim.probe("later_finished_before_earlier")
    finally:
        tempfile.tempdir = saved_tmp
        SIM[0] = None
        _FS_HOOK[0] = None
        SimPoolBase.sim = None
        SimPoolBase.registry = None
        shutil.rmtree(root, ignore_errors=True)
    seen, uniq = set(), []
    for v in run.V:
        if v["signature"] not in seen:
            seen.add(v["signature"])
            uniq.append(v)
    res["violations"] = uniq
    res["probes"] = dict(sim.probes)
    res["faults"] = dict(PREEMPT)
    res["nontrivial"] = run.state_changes >= 2 and run.selected_ops >= 1
    res["wdigest"] = digest_of(w)
    res["edigest"] = sim.digest()
    res["trace"] = sim.log[:800]
    res["kinds"] = [f"kind={w['kind']}", f"policy={policy['kind']}",
                    f"end={outcome.get('end')}"]
    res["counters"] = {"steps": sim.steps, "ops": len(w["ops"]),
                       "state_changes": run.state_changes,
                       "filesets": len(run.sets), "pools": len(pools)}
    res["sample"] = {
        "kind": w["kind"], "template": TEMPLATES[w["tmpl"]] + w["ext"],
        "options": {k: w[k] for k in ("time_coverage", "read_args", "write_args",
                                      "post_reader", "worker_type", "max_workers")},
        "ops": [_op_plain(o) for o in w["ops"]],
        "state_changes": run.state_changes, "filesets": len(run.sets),
        "steps": sim.steps,
    }
    return res


def _op_plain(o):
    d = {k: v for k, v in o.items() if k not in ("keep",)}
    if "tmpl" in d:
        d["tmpl"] = TEMPLATES[d["tmpl"]]
    return d
