"""C05 - collocating filesets == collocating all their data, for any process count.

Simulated system: the parent generator of Collocator.collocate_filesets, 1-4
fake child processes (sim/mp.py) with bounded result queue / error queue with
delivery delay, per child two fake reader thread pools (FileSet.align), the sim
clock behind typhon.utils.timeutils.  Real: everything of typhon (match, align,
collocate, bundling, concat, naming, writing), sklearn, xarray, pickle files in
the scratch directory.  Oracle: brute force over all points (own chord distance).
"""
import logging
import math
import os
import pickle
import shutil
import warnings
from datetime import datetime, timedelta

import numpy as np

from sim.kernel import Sim, make_policy, StepCap, Deadlock, SimClock
from sim.executors import SimPoolBase, SimThreadPool, SimProcessPool
from sim.mp import SimQueue, SimProcess
from sim.fsseam import SimLocalFS, HOOK as _FS_HOOK
from sim.linepreempt import LinePreempt
from sim.executors import sim_as_completed, sim_wait
import concurrent.futures as _cf
from sim.runner import new_result, scratch_root
from sim.seams import patched, NoGC, import_typhon, fresh_dir
from sim.seams import deterministic_tempnames
from sim import digest_of
from props import naming

PROPERTY_ID = "C05"
LEVEL = "exploration"
RULE = (
    "one case = one seeded simulated run of collocate_filesets / "
    "Collocations.search: tape-drawn pair of filesets (templates, file lengths "
    "1-24 h, gaps, 1-4 points per file in spatial clusters), thresholds, period, "
    "processes 1-4, bundle mode, output kind, optional unreadable file (with "
    "skip_file_errors; in a quarter of those runs without it, where only "
    "termination, soundness and exactly-once are demanded), and a "
    "tape-decided interleaving of parent, children, reader tasks and queue "
    "deliveries. Non-trivial = the brute-force oracle expects >= 1 collocation "
    "and (>= 2 tasks were runnable at some decision or a fault fired). "
    "Distinct = distinct (workload digest, event-order digest) pairs.")
ASSUMPTIONS = [
    "multiprocessing.Process/Queue are modelled (fork copy, bounded queue, "
    "feeder delay, child exits only after its items are in the pipe); real "
    "process behaviour beyond that model (signals, kills, pickling cost) is not "
    "observed",
    "start/end are always passed explicitly (open ends overflow in "
    "FileSet.match and are outside the property as stated)",
    "pairs whose distance lies within 1 mm of max_distance are border cases and "
    "never verdict-relevant; generators keep points away from such borders",
    "worker kills (SIGKILL) are not injected: the property only covers "
    "unreadable files",
]
COMPONENTS = {
    "real": ["typhon.collocations.collocator (collocate_filesets, "
             "_process_caller, _collocate_matches, collocate, concat_collocations, "
             "_save_and_return)", "typhon.collocations.common.Collocations",
             "typhon.files.fileset (match, find, align, icollect, imap, read, "
             "write, get_filename, get_info)", "typhon.trees.IntervalTree",
             "typhon.geographical.GeoIndex + sklearn BallTree", "xarray/pandas/"
             "numpy", "pickle files on the scratch directory"],
    "stub": ["multiprocessing.Process/Queue (sim.mp)", "ThreadPoolExecutor "
             "(sim.executors)", "time module of typhon.utils.timeutils "
             "(virtual clock)", "gc.collect"],
}
DEFAULTS = {
    "quick": {"budget_s": 45, "chunk": 8, "per_run_wall": 180, "minimise_s": 90},
    "thorough": {"budget_s": 1200, "chunk": 25, "per_run_wall": 180,
                 "minimise_s": 400},
}
REQUIRED_PROBES = ["got_after_all_children_dead", "bundle_flushed_at_tag_change",
                   "secondary_shared_by_primaries", "result_put_blocked_on_full_queue",
                   "unreadable_file_skipped", "period_cuts_files"]

_T = {}
ST = None
BASE = datetime(2018, 1, 1)
EARTH_R = 6371.0  # km, mean radius used by typhon.constants.earth_radius / 1e3


def setup():
    import_typhon()
    import typhon.files.fileset as fsmod
    import typhon.collocations.collocator as cmod
    import typhon.utils.timeutils as tmod
    import typhon.constants as cst
    from typhon.files import FileSet
    from typhon.files.handlers.common import FileHandler, FileInfo
    from typhon.collocations import Collocations, Collocator
    from typhon.files import NetCDF4
    import xarray as xr
    logging.getLogger("typhon").setLevel(logging.CRITICAL + 10)
    logging.getLogger("typhon").propagate = False
    _T.update(fsmod=fsmod, cmod=cmod, tmod=tmod, FileSet=FileSet,
              FileHandler=FileHandler, FileInfo=FileInfo,
              Collocations=Collocations, Collocator=Collocator, xr=xr, NetCDF4=NetCDF4,
              earth_radius=float(cst.earth_radius))
    from sim.seams import typhon_state
    _T["state"] = typhon_state()


class InjectedRead(Exception):
    """Marker for the failure the harness reader injects."""


class InjectedKeyError(InjectedRead, KeyError):
    """e.g. a field the file lacks"""


class InjectedEOFError(InjectedRead, EOFError):
    """e.g. a truncated file"""


class InjectedReadError(InjectedRead, OSError):
    pass


class State:
    def __init__(self, sim, tape, w, root):
        self.sim, self.tape, self.w, self.root = sim, tape, w, root
        self.fired = {}
        self.reads = {}
        self.writes = {}        # rel path -> list of pair-id lists

    def fire(self, k):
        self.fired[k] = self.fired.get(k, 0) + 1


def _rel(path):
    return os.path.relpath(str(path), ST.root)


# --------------------------------------------------------- handler callbacks
def reader(file_info):
    st = ST
    rel = _rel(file_info.path)
    data = None
    if not file_info.path.endswith(".nc"):
        # an input file names itself (under transparent decompression the
        # handler is given a temporary copy with another name)
        try:
            with open(file_info.path, "rb") as f:
                data = pickle.load(f)
            rel = getattr(data, "attrs", {}).get("rel", rel)
        except Exception:  # noqa: judged below, after the bookkeeping
            data = None
    st.reads[rel] = st.reads.get(rel, 0) + 1
    sim = st.sim
    sim.event("read", rel)
    plan = st.w["stalls"].get(rel)
    if plan:
        kind, amount = plan
        if kind == "y":
            for k in range(amount):
                sim.yield_(f"read:{rel}.{k}")
        else:
            st.fire("slow_io")
            sim.sleep(amount, f"read:{rel}.io")
    else:
        sim.yield_(f"read:{rel}")
    if rel == st.w.get("unreadable"):
        st.fire("unreadable_file")
        kind = st.w.get("read_exc", "OSError")
        if kind == "KeyError":
            raise InjectedKeyError(f"injected: no field in {rel}")
        if kind == "EOFError":
            raise InjectedEOFError(f"injected: {rel} ends early")
        raise InjectedReadError(5, f"injected EIO reading {rel}")
    if file_info.path.endswith(".nc"):
        return _T["NetCDF4"]().read(file_info)
    if data is not None:
        return data
    with open(file_info.path, "rb") as f:
        return pickle.load(f)


def writer(data, file_info):
    st = ST
    rel = _rel(file_info.path)
    st.sim.yield_(f"write:{rel}")
    st.writes.setdefault(rel, []).append(_pair_ids(data, st.w))
    st.sim.event("write", rel)
    if file_info.path.endswith(".nc"):
        # the format Collocations filesets use by default
        st.sim.probe("netcdf_output_written")
        _T["NetCDF4"]().write(data, file_info)
        return
    with open(file_info.path, "wb") as f:
        pickle.dump(data, f, protocol=pickle.HIGHEST_PROTOCOL)


def _pair_ids(ds, w):
    pairs = np.asarray(ds["Collocations/pairs"].values)
    ida = np.asarray(ds["A/id"].values)
    idb = np.asarray(ds["B/id"].values)
    return [(int(ida[int(p)]), int(idb[int(q)])) for p, q in zip(pairs[0], pairs[1])]


# ------------------------------------------------------------------ workload
TEMPLATES = {
    "flat_full": ("{year}{month}{day}{hour}{minute}{second}-{end_year}{end_month}"
                  "{end_day}{end_hour}{end_minute}{end_second}.dat", False),
    "daily_partial": ("{year}/{month}/{day}/{hour}{minute}{second}-{end_hour}"
                      "{end_minute}{end_second}.dat", False),
    "flat_cov": ("{year}{month}{day}_{hour}{minute}{second}.dat", True),
    "doy_cov": ("{year}/{doy}/{hour}{minute}.dat", True),
}
CLUSTERS = [(10.0, 20.0), (10.3, 20.0), (-60.0, 170.0), (10.0, 20.004)]
LENGTHS = [1, 2, 3, 4, 6, 12, 24]


def gen_fileset(tape, side, H):
    fs = {}
    fs["tmpl"] = tape.pick(list(TEMPLATES), f"tmpl{side}")
    Ls = [L for L in LENGTHS if L <= H and H // L <= 12]
    fs["L"] = tape.pick(Ls, f"L{side}")
    fs["end_style"] = tape.pick(["minus1", "touch"], f"end{side}")
    if fs["tmpl"] == "daily_partial" and fs["L"] == 24:
        fs["end_style"] = "minus1"       # a 24 h partial end would equal start
    # irregular: some files last 2-3 slots and so overlap / contain the
    # following files of their own fileset (only where the name spells the end)
    fs["irregular"] = not TEMPLATES[fs["tmpl"]][1] and fs["L"] <= 6 and \
        tape.flag(f"irregular{side}", 1, 4)
    files = []
    pid = 0
    for k in range(H // fs["L"]):
        if files and tape.flag(f"gap{side}", 1, 6):
            continue
        mult = 1
        if fs["irregular"]:
            mult = tape.pick([1, 1, 2, 3], f"mult{side}")
            day_left = 24 - (k * fs["L"]) % 24          # stay inside the day directory
            mult = max(1, min(mult, day_left // fs["L"]))
        npts = tape.count(1, 6, f"np{side}", (3, 4))
        pts = []
        for _ in range(npts):
            off = tape.choice(fs["L"] * mult * 3600, f"t{side}")
            if tape.flag(f"snap{side}", 1, 2):
                off -= off % 600          # many points share round times
            c = [0, 0, 1, 3, 0, 2][tape.choice(6, f"c{side}")]
            j = tape.choice(4, f"j{side}")
            pts.append([off, c, j])
        files.append({"k": k, "pts": pts, "mult": mult})
    fs["files"] = files
    return fs


def gen_workload(tape):
    w = {}
    H = tape.pick([12, 6, 24, 48], "H")
    w["H"] = H
    w["A"] = gen_fileset(tape, "A", H)
    w["B"] = gen_fileset(tape, "B", H)
    # B shifted in time: 0 = same span; otherwise B starts after A's last file
    # (no file of A has a partner -> the empty answer must come out cleanly)
    w["B"]["shift_h"] = tape.pick([0, 0, 0, 0, 0, 0, 0, H + 6], "shiftB")
    w["max_interval"] = tape.pick([3600, 300, 30, 10800, 90000], "mi")   # incl. > 1 day
    w["max_interval_as"] = tape.pick(["number", "string", "timedelta", "np_int64"], "mi_as")
    w["max_distance"] = tape.pick([1.0, 50.0, 0.1, 500.0], "md")
    w["max_distance_as"] = tape.pick(["number", "km", "m"], "md_as")
    if tape.flag("cut", 1, 3):
        a = tape.choice(H, "cut0")
        b = a + 1 + tape.choice(H - a, "cut1")
        w["period"] = [a * 3600 + 1800.5, b * 3600 + 1800.5]
        if tape.flag("cut_on_boundary", 1, 3):
            # period limits exactly on full hours: file starts/ends and the
            # points snapped to round times lie on them
            w["period"] = [a * 3600.0, b * 3600.0]
    else:
        w["period"] = [-3600.0, (2 * H + 8) * 3600.0]
    w["processes"] = tape.pick([2, 1, 3, 4, None], "procs")
    w["bundle"] = tape.pick([None, "primary", "daily"], "bundle")
    w["output"] = tape.pick(["memory", "fileset", "search"], "output")
    w["max_threads"] = tape.pick([3, 1, 2], "threads")
    w["out_dirs"] = tape.flag("out_dirs", 1, 2)      # output template with sub directories
    w["gz"] = tape.flag("gz_inputs", 1, 3)           # gzip-compressed input files
    w["coverage_set_later"] = tape.flag("coverage_set_later", 1, 3)
    w["out_nc"] = tape.flag("out_nc", 1, 2)          # output files in NetCDF4 (typhon's default)
    # rarely: one file of each fileset is dense (> 10^6 candidate pairs for that
    # file pair -> the temporally pre-binned search inside a worker)
    w["dense"] = tape.flag("dense", 1, 150)
    if w["dense"]:
        # several time bins only with an interval well below the file length
        w["max_interval"] = tape.pick([300, 30, 3600, 10800], "mi_dense")
    w["line_stride"] = 17 + tape.choice(40, "linestride") if w["dense"] else 0
    w["line_phase"] = 1 + tape.choice(60, "linephase") if w["dense"] else 0
    w["store_stride"] = 1 + tape.choice(5, "storestride") if w["dense"] else 0
    allfiles = [("A", f["k"]) for f in w["A"]["files"]] + \
               [("B", f["k"]) for f in w["B"]["files"]]
    w["unreadable"] = None
    if tape.flag("unreadable", 1, 5):
        side, k = tape.pick(allfiles, "unreadable_file")
        w["unreadable"] = _relpath(w, side, k)
    # mostly with skip_file_errors (what the property speaks about); sometimes
    # without: then the worker dies - only termination, soundness and
    # exactly-once are demanded in that case
    w["skip_errors"] = w["unreadable"] is None or not tape.flag("noskip", 1, 4)
    # the class of the reader's failure: any exception makes a file unreadable
    w["read_exc"] = tape.pick(["OSError", "OSError", "KeyError", "EOFError"], "read_exc")
    w["queue_delay"] = tape.pick([0, 1, 2], "qdelay")   # 0 none, 1 some, 2 many
    w["clock_jump"] = tape.flag("clockjump", 1, 6)
    stalls = {}
    for side, k in allfiles:
        c = tape.choice(4, "stall")
        if c == 1:
            stalls[_relpath(w, side, k)] = ["y", 1 + tape.choice(3, "ny")]
        elif c == 2:
            stalls[_relpath(w, side, k)] = ["s", [0.5, 2.0, 9.0][tape.choice(3, "lat")]]
    w["stalls"] = stalls
    return w


def _times(w, side, k):
    fs = w[side]
    mult = next((f.get("mult", 1) for f in fs["files"] if f["k"] == k), 1)
    t0 = BASE + timedelta(hours=k * fs["L"] + fs.get("shift_h", 0))
    t1 = t0 + timedelta(hours=fs["L"] * mult)
    if fs["end_style"] == "minus1":
        t1 -= timedelta(seconds=1)
    return t0, t1


def _relpath(w, side, k):
    t0, t1 = _times(w, side, k)
    return side + "/" + naming.fmt(_tmpl(w, side), t0, t1)


def _tmpl(w, side):
    """The fileset's template; with w['gz'] the input files are gzip-compressed
    (typhon decompresses transparently, by the suffix)."""
    t = TEMPLATES[w[side]["tmpl"]][0]
    return t + ".gz" if w.get("gz") else t


def _points(w, side):
    """All points of one fileset: list of dict(id, t(datetime), lat, lon, file)."""
    out = []
    base_id = 1000 if side == "A" else 500000
    n = 0
    for fi_, f in enumerate(w[side]["files"]):
        t0, _ = _times(w, side, f["k"])
        pts = list(f["pts"])
        if w.get("dense") and fi_ == 0:
            # 1100 pseudo-random points in the first file (deterministic),
            # inside the hours both first files cover, so that the pair has
            # > 10^6 candidate combinations after the common-period cut
            span = min(w["A"]["L"], w["B"]["L"]) * 3600
            seed = 12345 if side == "A" else 54321
            for q in range(1100):
                seed = (seed * 1103515245 + 12345) % (2 ** 31)
                pts.append([seed % span, [0, 1, 3][q % 3], q % 4])
        for off, c, j in pts:
            lat, lon = CLUSTERS[c]
            out.append({"id": base_id + n, "t": t0 + timedelta(seconds=off),
                        "lat": lat + 0.002 * j, "lon": lon,
                        "file": _relpath(w, side, f["k"])})
            n += 1
    return out


def _chord_km(p, q, R):
    def xyz(lat, lon):
        la, lo = math.radians(lat), math.radians(lon)
        return (R * math.cos(la) * math.cos(lo), R * math.cos(la) * math.sin(lo),
                R * math.sin(la))
    a, b = xyz(p["lat"], p["lon"]), xyz(q["lat"], q["lon"])
    return math.sqrt(sum((x - y) ** 2 for x, y in zip(a, b)))


def expected_pairs(w, R_km):
    start = BASE + timedelta(seconds=w["period"][0])
    end = BASE + timedelta(seconds=w["period"][1])
    A = [p for p in _points(w, "A") if start <= p["t"] <= end]
    B = [p for p in _points(w, "B") if start <= p["t"] <= end]
    sure, border = set(), set()
    if not A or not B:
        return sure, border, A, B

    def xyz(P):
        la = np.radians(np.array([p["lat"] for p in P]))
        lo = np.radians(np.array([p["lon"] for p in P]))
        return np.stack([R_km * np.cos(la) * np.cos(lo),
                         R_km * np.cos(la) * np.sin(lo), R_km * np.sin(la)], axis=1)
    XA, XB = xyz(A), xyz(B)
    tA = np.array([(p["t"] - BASE).total_seconds() for p in A])
    tB = np.array([(p["t"] - BASE).total_seconds() for p in B])
    ida = [p["id"] for p in A]
    idb = [p["id"] for p in B]
    # row blocks keep the temporary arrays small for the dense workloads
    for r0 in range(0, len(A), 256):
        d = XA[r0:r0 + 256, None, :] - XB[None, :, :]
        D = np.sqrt((d * d).sum(axis=2))
        close = np.abs(tA[r0:r0 + 256, None] - tB[None, :]) < w["max_interval"]
        near_border = np.abs(D - w["max_distance"]) < 1e-6
        for i, j in np.argwhere(close & near_border):
            border.add((ida[r0 + i], idb[j]))
        for i, j in np.argwhere(close & ~near_border & (D < w["max_distance"])):
            sure.add((ida[r0 + i], idb[j]))
    return sure, border, A, B


def _make_files(w, root, xr):
    for side in ("A", "B"):
        pts = _points(w, side)
        by_file = {}
        for p in pts:
            by_file.setdefault(p["file"], []).append(p)
        for f in w[side]["files"]:
            rel = _relpath(w, side, f["k"])
            ps = by_file.get(rel, [])
            ds = xr.Dataset({
                "time": ("n", np.array([np.datetime64(p["t"], "ns") for p in ps])),
                "lat": ("n", np.array([p["lat"] for p in ps], dtype=float)),
                "lon": ("n", np.array([p["lon"] for p in ps], dtype=float)),
                "id": ("n", np.array([p["id"] for p in ps], dtype=np.int64)),
            }, coords={"n": np.arange(len(ps)) * 3 + 7},   # unique labels
                attrs={"rel": rel})
            path = os.path.join(root, rel)
            os.makedirs(os.path.dirname(path), exist_ok=True)
            if path.endswith(".gz"):
                import gzip
                with gzip.open(path, "wb") as fh:
                    pickle.dump(ds, fh, protocol=pickle.HIGHEST_PROTOCOL)
            else:
                with open(path, "wb") as fh:
                    pickle.dump(ds, fh, protocol=pickle.HIGHEST_PROTOCOL)
            # precondition self-check: the name-derived coverage contains the points
            t0, t1 = _times(w, side, f["k"])
            tmpl, needs_cov = _tmpl(w, side), TEMPLATES[w[side]["tmpl"]][1]
            cov = naming.coverage(tmpl, t0, t1, _cov_td(w, side) if needs_cov else None)
            for p in ps:
                if not (cov[0] <= p["t"] <= cov[1]):
                    raise AssertionError(f"harness: point outside coverage {rel}")


def _cov_td(w, side):
    fs = w[side]
    td = timedelta(hours=fs["L"])
    if fs["end_style"] == "minus1":
        td -= timedelta(seconds=1)
    return td


OUT_TMPL = ("out/{year}{month}{day}{hour}{minute}{second}-{end_year}{end_month}"
            "{end_day}{end_hour}{end_minute}{end_second}.dat")
OUT_TMPL_DIRS = ("out/{year}/{month}/{day}/{hour}{minute}{second}-{end_year}"
                 "{end_month}{end_day}{end_hour}{end_minute}{end_second}.dat")


# ------------------------------------------------------------------- the run
def run_one(tape, only=None):
    _T["state"].restore()      # each run models a fresh interpreter
    deterministic_tempnames()
    global ST
    res = new_result()
    w = gen_workload(tape)
    policy = make_policy(tape)
    sim = Sim(tape, policy, step_cap=60000)
    root = fresh_dir(scratch_root(), "c05")
    st = State(sim, tape, w, root)
    ST = st
    fsmod, cmod, tmod = _T["fsmod"], _T["cmod"], _T["tmod"]
    FileSet, FileHandler = _T["FileSet"], _T["FileHandler"]
    SimPoolBase.sim, SimPoolBase.registry = sim, []
    SimQueue.sim, SimQueue.registry = sim, []
    SimProcess.sim, SimProcess.registry = sim, []
    SimProcess.queues = SimQueue.registry
    qd = w["queue_delay"]

    def delay_fn(q, task):
        if qd == 0:
            return 0.0
        c = tape.choice(4 if qd == 1 else 2, "qdelay")
        if c == 0:
            return 0.0
        st.fire("message_delay")
        return [0.0, 0.3, 1.5, 6.0][tape.choice(3, "qdelay_len") + 1]
    SimQueue.delay_fn = staticmethod(delay_fn)
    clock = SimClock(sim)
    _FS_HOOK[0] = lambda label: sim.yield_(label) if sim.me() is not None else None
    extra_seams = []
    for mod in (cmod, _cf):
        for name, fake in (("ThreadPoolExecutor", SimThreadPool),
                           ("ProcessPoolExecutor", SimProcessPool),
                           ("as_completed", sim_as_completed), ("wait", sim_wait)):
            if mod is _cf or hasattr(mod, name):
                extra_seams.append((mod, name, fake))
    _orig_binned = cmod.Collocator.spatial_search_with_temporal_binning

    def _binned(self_, *a, **k):
        sim.probe("binned_path")
        return _orig_binned(self_, *a, **k)
    extra_seams.append((cmod.Collocator, "spatial_search_with_temporal_binning", _binned))
    if w["line_stride"]:
        from sim.linepreempt import periodic_points
        import typhon.geographical as _gmod
        lp = LinePreempt(sim, [cmod, _gmod],
                         periodic_points(w["line_phase"], w["line_stride"], 400),
                         only="pool",
                         store_points=periodic_points(
                             1 + w["line_phase"] % w["store_stride"],
                             w["store_stride"], 600))
        sim.line_preempt = lp
    outcome = {"yielded": [], "crashed": 0}
    procs_snapshot = []
    orig_get = SimQueue.get
    try:
        _make_files(w, root, _T["xr"])
        os.makedirs(os.path.join(root, "tmp"), exist_ok=True)
        handler = FileHandler(reader=reader, writer=writer)
        sets = {}
        for side in ("A", "B"):
            tmpl, needs_cov = _tmpl(w, side), TEMPLATES[w[side]["tmpl"]][1]
            late_cov = needs_cov and w.get("coverage_set_later")
            sets[side] = FileSet(
                f"{root}/{side}/{tmpl}", handler=handler, name=side,
                time_coverage=_cov_td(w, side) if needs_cov and not late_cov else None,
                max_threads=w["max_threads"], fs=SimLocalFS(),
                temp_dir=os.path.join(root, "tmp"))
            if late_cov:
                # the user looks at the fileset first and tells it the duration
                # of its files afterwards
                try:
                    list(sets[side].find(no_files_error=False))
                except Exception:  # noqa
                    pass
                sets[side].time_coverage = _cov_td(w, side)
                sim.probe("time_coverage_set_after_a_first_search")
        out_fs = None
        if w["output"] != "memory":
            out_fs = _T["Collocations"](
                f"{root}/{OUT_TMPL_DIRS if w['out_dirs'] else OUT_TMPL}"[:-4]
                + (".nc" if w["out_nc"] else ".dat"),
                handler=handler, name="OUT", read_mode="compact", fs=SimLocalFS())
        start = BASE + timedelta(seconds=w["period"][0])
        end = BASE + timedelta(seconds=w["period"][1])
        mi = w["max_interval"]
        mi_arg = {"number": mi, "string": f"{mi} s",
                  "timedelta": timedelta(seconds=mi),
                  "np_int64": np.int64(mi)}[w["max_interval_as"]]
        md = w["max_distance"]
        md_arg = {"number": md, "km": f"{md} km",
                  "m": f"{md * 1000.0} m"}[w["max_distance_as"]]
        kwargs = dict(start=start, end=end, processes=w["processes"],
                      bundle=w["bundle"], max_interval=mi_arg, max_distance=md_arg,
                      skip_file_errors=w["unreadable"] is not None and w["skip_errors"])
        if w["clock_jump"]:
            def jump():
                st.fire("clock_jump")
                clock.jump([-7200.0, 86400.0, -1.0][tape.choice(3, "jumpby")])
            sim.after([0.1, 1.0, 4.0][tape.choice(3, "jumpat")], jump)

        def main():
            coll = _T["Collocator"]()
            if w["output"] == "search":
                out_fs.search([sets["A"], sets["B"]], collocator=coll, **kwargs)
                return
            gen = coll.collocate_filesets(
                [sets["A"], sets["B"]], output=out_fs, **kwargs)
            for item in gen:
                if item is cmod.ProcessCrashed:
                    outcome["crashed"] += 1
                    continue
                outcome["yielded"].append(item)

        def probing_get(self, *a, **k):
            if self.maxsize > 0 and SimProcess.registry and \
                    all(p.dead for p in SimProcess.registry):
                sim.probe("got_after_all_children_dead")
            return orig_get(self, *a, **k)
        SimQueue.get = probing_get

        with patched((fsmod, "ThreadPoolExecutor", SimThreadPool),
                     (fsmod, "ProcessPoolExecutor", SimProcessPool),
                     (fsmod, "gc", NoGC), (cmod, "gc", NoGC),
                     (cmod, "Process", SimProcess), (cmod, "Queue", SimQueue),
                     (tmod, "time", clock), *extra_seams), warnings.catch_warnings():
            warnings.simplefilter("ignore")
            np.random.seed(tape.choice(2 ** 31, "npseed"))
            try:
                sim.run(main)
                outcome["end"] = "returned"
            except StepCap as e:
                outcome["end"], outcome["detail"] = "stepcap", str(e)
            except Deadlock as e:
                outcome["end"], outcome["detail"] = "deadlock", str(e)
            except Exception as e:  # noqa: what the caller of typhon saw
                outcome["end"], outcome["exc"] = "raised", e
            procs_snapshot = list(SimProcess.registry)
            queues = list(SimQueue.registry)
            violations, info = _oracle(w, st, sim, outcome, policy, out_fs,
                                       procs_snapshot, queues)
    finally:
        SimQueue.get = orig_get
        _FS_HOOK[0] = None
        ST = None
        for cls in (SimPoolBase, SimQueue, SimProcess):
            cls.sim = None
            cls.registry = None
        SimQueue.delay_fn = None
        shutil.rmtree(root, ignore_errors=True)

    res["violations"] = violations
    res["faults"] = dict(st.fired)
    if sim.line_preempt is not None and sim.line_preempt.fired:
        sim.probe("line_preemptions_in_pool_workers")
    res["probes"] = dict(sim.probes)
    res["nontrivial"] = info["expected"] > 0 and (
        sim.stats["decisions_gt1"] > 0 or bool(st.fired))
    res["wdigest"] = digest_of(w)
    res["edigest"] = sim.digest()
    res["trace"] = sim.log[:1500]
    res["sim_seconds"] = sim.now
    res["kinds"] = [f"procs={w['processes']}", f"bundle={w['bundle']}",
                    f"output={w['output']}", f"policy={policy['kind']}",
                    f"end={outcome.get('end')}"]
    res["counters"] = {"steps": sim.steps, "tasks": len(sim.tasks),
                       "expected_pairs": info["expected"],
                       "border_cases_skipped": info["border"],
                       "file_matches": info.get("matches", 0),
                       "children": len(procs_snapshot)}
    res["sample"] = {
        "workload": {k: v for k, v in w.items() if k not in ("stalls", "A", "B")},
        "A": {k: v for k, v in w["A"].items() if k != "files"},
        "B": {k: v for k, v in w["B"].items() if k != "files"},
        "files": [len(w["A"]["files"]), len(w["B"]["files"])],
        "points": [sum(len(f["pts"]) for f in w["A"]["files"]),
                   sum(len(f["pts"]) for f in w["B"]["files"])],
        "expected_pairs": info["expected"], "found_pairs": info.get("found"),
        "policy": {k: (sorted(v) if isinstance(v, frozenset) else v)
                   for k, v in policy.items()},
        "outcome": outcome.get("end"), "steps": sim.steps,
        "children": len(procs_snapshot),
    }
    return res


def _viol(sig, msg, extra=None):
    return {"signature": sig, "message": msg, "extra": extra}


def _oracle(w, st, sim, outcome, policy, out_fs, procs, queues):
    V = []
    R_km = _T["earth_radius"] / 1000.0
    sure, border, A, B = expected_pairs(w, R_km)
    info = {"expected": len(sure), "border": len(border)}
    end = outcome.get("end")
    # probes about the workload
    start = BASE + timedelta(seconds=w["period"][0])
    endp = BASE + timedelta(seconds=w["period"][1])
    if w["period"][0] > 0:
        sim.probe("period_cuts_files")
    for q in queues:
        if q.maxsize > 0 and q.stats["blocked_put"]:
            sim.probe("result_put_blocked_on_full_queue")
    if w["unreadable"] and st.fired.get("unreadable_file"):
        sim.probe("unreadable_file_skipped")
    # a secondary file needed by >= 2 primaries (align cache / usage counter)
    mi_td = timedelta(seconds=w["max_interval"])
    for fb in w["B"]["files"]:
        b0, b1 = _times(w, "B", fb["k"])
        n_over = sum(1 for fa in w["A"]["files"]
                     if _times(w, "A", fa["k"])[0] <= b1 + mi_td
                     and _times(w, "A", fa["k"])[1] >= b0 - mi_td)
        if n_over >= 2:
            sim.probe("secondary_shared_by_primaries")
            break
    if end == "deadlock":
        return [_viol("C05/deadlock", outcome["detail"])], info
    if end == "stepcap":
        if policy["kind"] == "pct":
            sim.probe("stepcap_under_unfair_scheduler")
            return [], info
        return [_viol("C05/no-termination", outcome["detail"])], info
    if end == "raised":
        exc = outcome["exc"]
        # documented/expected: nothing to collocate at all
        no_files = type(exc).__name__ == "NoFilesError"
        if no_files and not sure:
            sim.probe("no_files_error")
            return [], info
        return [_viol(f"C05/exception/{type(exc).__name__}",
                      f"{type(exc).__name__}: {str(exc)[:300]}")], info
    # children that crashed
    crashed = [p for p in procs if p.exitcode not in (0, None)]
    tolerate_crash = False
    if w["unreadable"] and not w["skip_errors"] and st.fired.get("unreadable_file"):
        # an unreadable file without skip_file_errors: the worker must die with
        # that error and the parent must still terminate (it did, we are here)
        tolerate_crash = True
        sim.probe("worker_died_of_unreadable_file")
        bad = [p for p in crashed if not isinstance(p.error, InjectedRead)]
        if bad or not crashed:
            V.append(_viol("C05/unreadable-without-skip",
                           f"expected the affected worker(s) to end with the read "
                           f"error; crashed: {[repr(p.error)[:80] for p in crashed]}"))
    if (crashed or outcome["crashed"]) and not tolerate_crash:
        err = crashed[0].error if crashed else None
        V.append(_viol(
            f"C05/process-crashed/{type(err).__name__ if err else 'unknown'}",
            f"{len(crashed)} child process(es) crashed: {err!r}"[:500]))
        return V, info
    # ---- collect the found pairs ---------------------------------------------
    found = []
    if w["output"] == "memory":
        for item in outcome["yielded"]:
            ds = item[0]
            found.extend(_pair_ids(ds, w))
            V.extend(_check_dataset(ds, w, A, B))
    else:
        names = outcome["yielded"] if w["output"] == "fileset" else None
        outdir = os.path.join(st.root, "out")
        found_files = []
        for dp, dn, fns in os.walk(outdir):
            for fn in fns:
                found_files.append(os.path.join(dp, fn))
        found_files.sort()
        ondisk = [os.path.basename(p_) for p_ in found_files]
        for path in found_files:
            fn = os.path.basename(path)
            try:
                ds = out_fs.read(path)
                fi = out_fs.get_info(path)
            except Exception as e:  # noqa
                V.append(_viol("C05/output-unreadable",
                               f"{fn}: {type(e).__name__}: {e}"[:300]))
                continue
            ids = _pair_ids(ds, w)
            found.extend(ids)
            V.extend(_check_dataset(ds, w, A, B))
            # name = time span of the collocated primaries (to the second)
            tA = {p["id"]: p["t"] for p in A}
            ts = [tA[i] for i, _ in ids if i in tA]
            if ts:
                span = [min(ts).replace(microsecond=0), max(ts).replace(microsecond=0)]
                if list(fi.times) != span:
                    V.append(_viol("C05/output-name-span",
                                   f"{fn}: name says {fi.times}, primaries span {span}"))
        if names is not None:
            if sorted(set(os.path.abspath(str(n)) for n in names)) != \
                    sorted(os.path.abspath(p_) for p_ in found_files):
                V.append(_viol("C05/output-names-yielded",
                               f"yielded {sorted(map(str, names))[:5]} vs on disk {ondisk[:5]}"))
    info["found"] = len(found)
    n_results = len(outcome["yielded"]) if w["output"] != "search" else len(st.writes)
    if w["bundle"] is not None and len(procs) == 1 and n_results >= 2:
        sim.probe("bundle_flushed_at_tag_change")
    # ---- compare with the brute force ----------------------------------------
    exp = set(sure)
    if w["unreadable"]:
        bad_ids = {p["id"] for p in A + B if p["file"] == w["unreadable"]}
        if st.fired.get("unreadable_file"):
            exp = {pr for pr in exp if pr[0] not in bad_ids and pr[1] not in bad_ids}
        # if the file was never read (not matched at all) nothing is removed
    fset = set(found)
    dups = len(found) - len(fset)
    if dups:
        from collections import Counter
        d = sorted(p for p, c in Counter(found).items() if c > 1)[:5]
        V.append(_viol("C05/duplicate-pairs",
                       f"{dups} pair(s) reported more than once, e.g. {d}"))
    extra = fset - exp - border
    if extra:
        V.append(_viol("C05/spurious-pairs",
                       f"{len(extra)} pair(s) reported that the brute force does "
                       f"not find, e.g. {sorted(extra)[:5]}"))
    missing = exp - fset
    if tolerate_crash:
        missing = set()          # whatever the dead worker had left is lost
    if missing:
        # confirmed cause: two results written to the same output file name
        over = {}
        for rel, writes in st.writes.items():
            if len(writes) > 1:
                lost = set()
                for ws in writes[:-1]:
                    lost.update(ws)
                lost -= set(writes[-1])
                over[rel] = lost
        lost_all = set().union(*over.values()) if over else set()
        if over and missing <= lost_all:
            V.append(_viol(
                "C05/missing-pairs/output-name-collision",
                f"{len(missing)} pair(s) lost because {len(over)} output file "
                f"name(s) were written more than once (results with identical "
                f"start/end second overwrite each other), e.g. {sorted(over)[:2]}"))
        else:
            V.append(_viol(
                "C05/missing-pairs",
                f"{len(missing)} of {len(exp)} expected pair(s) not reported "
                f"(processes={w['processes']}, bundle={w['bundle']}, "
                f"output={w['output']}), e.g. {sorted(missing)[:5]}"))
    return V, info


def _check_dataset(ds, w, A, B):
    """A result (yielded, or read back from the output fileset) is unchanged
    data: the stored points carry the time and position of the original
    points with their ids, and interval / distance of each pair are the actual
    values."""
    V = []
    try:
        pairs = np.asarray(ds["Collocations/pairs"].values)
        n = pairs.shape[1]
        if ds["Collocations/interval"].size != n or ds["Collocations/distance"].size != n:
            V.append(_viol("C05/metadata-length",
                           "interval/distance length differs from pairs"))
            return V
        t = {}
        for side, P in (("A", A), ("B", B)):
            orig = {p["id"]: p for p in P}
            ids = np.asarray(ds[f"{side}/id"].values)
            lat = np.asarray(ds[f"{side}/lat"].values, dtype=float)
            lon = np.asarray(ds[f"{side}/lon"].values, dtype=float)
            tim = np.asarray(ds[f"{side}/time"].values).astype("M8[us]")
            for k, i_ in enumerate(ids):
                p = orig.get(int(i_))
                if p is None:
                    continue            # outside the period: reported as spurious pair
                if lat[k] != p["lat"] or lon[k] != p["lon"] or \
                        tim[k] != np.datetime64(p["t"], "us"):
                    V.append(_viol(
                        "C05/stored-point-changed",
                        f"point {int(i_)} of {side} stored as ({tim[k]}, {lat[k]}, "
                        f"{lon[k]}), the file holds ({p['t']}, {p['lat']}, {p['lon']})"))
                    return V
            t[side] = (ids, lat, lon, tim)
        pa, pb = pairs[0].astype(int), pairs[1].astype(int)
        iv = np.asarray(ds["Collocations/interval"].values)
        sec = iv / np.timedelta64(1, "s") if iv.dtype.kind == "m" else iv.astype(float)
        want = np.abs((t["A"][3][pa] - t["B"][3][pb]) / np.timedelta64(1, "s"))
        bad = np.nonzero(np.abs(sec - want) > 1e-3)[0]
        if bad.size:
            k = int(bad[0])
            V.append(_viol("C05/stored-interval",
                           f"pair ({int(t['A'][0][pa[k]])}, {int(t['B'][0][pb[k]])}) "
                           f"interval {sec[k]} s, actual {want[k]} s"))
            return V
        la1, lo1 = np.radians(t["A"][1][pa]), np.radians(t["A"][2][pa])
        la2, lo2 = np.radians(t["B"][1][pb]), np.radians(t["B"][2][pb])
        h = np.sin((la2 - la1) / 2) ** 2 + \
            np.cos(la1) * np.cos(la2) * np.sin((lo2 - lo1) / 2) ** 2
        arc = 2 * EARTH_R * np.arcsin(np.sqrt(np.clip(h, 0, 1)))
        dist = np.asarray(ds["Collocations/distance"].values, dtype=float)
        # typhon's great-circle formula against the harness's own: 1 m + 0.3 %
        # (typhon.geodesy uses the equatorial radius here, 0.11 % more than
        # the mean radius; the pairs themselves are judged against
        # max_distance separately)
        bad = np.nonzero(np.abs(dist - arc) > 1e-3 + 3e-3 * arc)[0]
        if bad.size:
            k = int(bad[0])
            V.append(_viol("C05/stored-distance",
                           f"pair ({int(t['A'][0][pa[k]])}, {int(t['B'][0][pb[k]])}) "
                           f"distance {dist[k]} km, actual {arc[k]:.6f} km"))
    except Exception as e:  # noqa
        V.append(_viol("C05/malformed-result", f"{type(e).__name__}: {e}"[:300]))
    return V
