"""C01 - FileSet.find returns exactly the files that overlap the requested period.
(engine shared with C16: props/fsfind.py)"""
import copy
import os
import shutil
import warnings
from datetime import datetime, timedelta

from sim.runner import new_result, scratch_root
from sim.seams import fresh_dir
from sim import digest_of
from props import naming
from props import fsfind as F
from props.fsfind import _viol

PROPERTY_ID = "C01"
LEVEL = "exploration"
RULE = (
    "one case = one seeded history on a simulated file system: a tape-drawn "
    "path template (0-4 directory levels from year/year2/month/day/doy/hour/"
    "user placeholder/literal/wildcard, start fields at s/min/ms resolution, "
    "no/partial/full end fields), 0-14 files placed by the harness's own "
    "formatter (boundary-biased times, durations up to the finest directory "
    "period, duplicate starts under different placeholder values), then 4-10 "
    "operations: create / delete file, reset_cache, change time_coverage, and "
    "queries find / `in` / len / to_dataframe with boundary-biased periods, "
    "sort, only_path, bundle, filters, exclude lists; directory listings are "
    "returned in tape-chosen order. Non-trivial = a query whose expected answer "
    "is non-empty and differs from 'all files', after >= 1 state change or "
    "with >= 3 files. Distinct = distinct (workload digest, answer digest).")
ASSUMPTIONS = [
    "the alignment space (file vs directory vs query boundaries) is sampled by "
    "a boundary-biased generator, not enumerated; the simulator contributes "
    "storage control, listing order and the create/delete/cache history",
    "every generated file satisfies the stated preconditions (sits in the "
    "directory of its start time, lasts no longer than the finest directory "
    "period, name at template resolution); templates always carry a complete "
    "start date",
    "coverage of a file = what the property text (C01/C02) promises for its "
    "name, computed by props/naming.py independently of typhon",
]
COMPONENTS = {
    "real": ["typhon.files.fileset (find, __contains__, __len__, to_dataframe, "
             "_get_search_dirs, _check_placeholders, get_info, exclude_*, "
             "filters, bundling)", "typhon.trees.IntervalTree (exclude periods)",
             "fsspec glob/walk logic", "LocalFileSystem / ZipFileSystem in the "
             "minority configurations"],
    "stub": ["the file system: SimFS, an in-memory fsspec file system with "
             "tape-ordered listings (majority configuration)"],
}
DEFAULTS = {
    "quick": {"budget_s": 45, "chunk": 25, "per_run_wall": 120, "minimise_s": 60},
    "thorough": {"budget_s": 900, "chunk": 60, "per_run_wall": 120,
                 "minimise_s": 300},
}
REQUIRED_PROBES = ["file_crosses_directory_boundary", "query_end_on_file_start",
                   "query_start_on_file_end", "open_ended_query", "exclude_period",
                   "exclude_name", "filter_white", "filter_black", "bundle_int",
                   "bundle_freq", "listing_permuted", "backend_zip", "backend_local",
                   "created_after_first_query", "duplicate_start_times",
                   "excludes_cleared", "filter_two_placeholders",
                   "generators_interleaved"]


def setup():
    F.setup()


QUERIES = ("find", "contains", "len")
# other layouts a FileSet object may have been created for
DECOYS = ["elsewhere/{year}/{month}/{day}/{hour}{minute}{second}_",
          "elsewhere/{year}/{doy}/x{hour}_",
          "elsewhere/flat_{year}{month}{day}{hour}{minute}{second}-{end_hour}{end_minute}_",
          "elsewhere/{year}/{month}/m{day}{hour}{minute}{second}_"]


def gen_workload(tape):
    w = {}
    w["backend"] = tape.pick(["sim", "sim", "sim", "local", "zip"], "backend")
    w["single"] = tape.flag("single_file", 1, 12)
    t = F.gen_template(tape)
    w["t"] = t
    n = tape.count(0, 14, "nfiles", (5, 6))
    w["files"] = [dict(f, t0=f["t0"].isoformat(), t1=f["t1"].isoformat())
                  for f in F.gen_files(tape, t, n)
                  if F.precondition_ok(t, f, t["time_coverage"])]
    ops = []
    nops = tape.count(4, 10, "nops", (4, 5))
    for _ in range(nops):
        kinds = ["find", "find", "find", "contains", "len", "create", "delete",
                 "find", "reset_cache", "set_coverage", "dataframe", "set_excludes",
                 "other_fileset"]
        if w["backend"] == "zip":
            kinds = ["find", "find", "contains", "len", "find", "dataframe"]
        o = {"op": tape.pick(kinds, "op")}
        if o["op"] == "find":
            o["q"] = gen_query(tape, "q")
            o["sort"] = not tape.flag("nosort", 1, 4)
            o["only_path"] = tape.flag("only_path", 1, 4)
            o["bundle"] = tape.pick([None, None, None, 1, 2, 5, "1h", "6h", "1D"], "bundle")
            o["filters"] = gen_filters(tape, t.get("mode_in_name")) if F.uses_sat(t) else None
            o["no_files_error"] = tape.flag("nfe", 1, 2)
            o["twice"] = tape.flag("twice", 1, 3)
            # sometimes two unsorted searches are consumed alternately (each
            # find() is a generator with its own state), optionally with a
            # containment test in between
            if tape.flag("interleave", 1, 6):
                o["q2"] = gen_query(tape, "q2")
                o["filters2"] = gen_filters(tape, t.get("mode_in_name")) \
                    if F.uses_sat(t) and tape.flag("f2", 2, 3) else None
                o["pattern"] = [tape.flag("il", 1, 2) for _ in range(12)]
        elif o["op"] == "contains":
            o["q"] = gen_query(tape, "c")
            o["as_period"] = tape.flag("cperiod", 1, 3)
        elif o["op"] == "create":
            o["file"] = None     # drawn at run time from the same generator
            fs = F.gen_files(tape, t, 1)
            if fs:
                o["file"] = dict(fs[0], t0=fs[0]["t0"].isoformat(),
                                 t1=fs[0]["t1"].isoformat())
        elif o["op"] == "delete":
            o["idx"] = tape.choice(20, "didx")
        elif o["op"] == "set_coverage":
            o["tcov"] = tape.pick([None, 60, 3600, 600], "ntcov")
        elif o["op"] == "other_fileset":
            # another FileSet object lives in the same process - a copy of this
            # one, or a fresh one for another layout - and is configured and
            # used through its own public interface: objects are independent
            o["how"] = tape.pick(["copy", "fresh"], "other_how")
            o["decoy"] = tape.choice(len(DECOYS), "other_decoy")
            o["what"] = [tape.flag("other_ph", 2, 3), tape.flag("other_excl", 1, 2),
                         tape.flag("other_find", 2, 3)]
        elif o["op"] == "set_excludes":
            # change the exclusions on the live object: clear them (empty list
            # or None) or set new ones
            o["what"] = tape.pick(["times", "files", "both"], "exwhat")
            o["how"] = tape.pick(["empty", "none", "new", "invalid"], "exhow")
            o["names"] = [tape.choice(20, "exn2") for _ in range(tape.count(0, 2, "nexn2", (1, 2)))]
            o["periods"] = []
            for _ in range(tape.count(0, 2, "nexp2", (1, 2))):
                a, b = gen_point(tape, "exa2"), gen_point(tape, "exb2")
                if a is not None and b is not None:
                    o["periods"].append(sorted([a, b]))
        ops.append(o)
    w["ops"] = ops
    # exclusions
    w["exclude_names"] = [tape.choice(20, "exn") for _ in range(tape.count(0, 2, "nexn", (1, 3)))]
    w["exclude_periods"] = []
    for _ in range(tape.count(0, 3, "nexp", (1, 3))):
        a = gen_point(tape, "exa")
        b = gen_point(tape, "exb")
        if a is not None and b is not None:
            w["exclude_periods"].append(sorted([a, b]))
    w["exclude_via"] = tape.pick(["ctor", "methods"], "exvia")
    # 0: the FileSet is constructed on its template; k: on decoy layout k and
    # then re-pointed with `fileset.path = template`
    w["path_setter"] = tape.choice(1 + len(DECOYS), "path_setter") \
        if tape.flag("via_path_setter", 1, 5) else 0
    w["relative_cwd"] = tape.flag("relative_cwd", 1, 3)     # local backend only
    w["junk"] = tape.choice(4, "junk") if tape.flag("junk_entries", 1, 4) else 0
    # two caller threads share the FileSet: consecutive queries run as two
    # simulated tasks with line pre-emption inside typhon.files.fileset
    w["two_callers"] = w["backend"] == "sim" and tape.flag("two_callers", 1, 6)
    w["line_stride"] = 7 + tape.choice(40, "linestride") if w["two_callers"] else 0
    w["store_stride"] = 1 + tape.choice(4, "storestride") if w["two_callers"] else 0
    return w


def gen_point(tape, label):
    """A query time: (kind, index, delta seconds) resolved against the files at
    run time, or an absolute offset. None = open end."""
    c = tape.choice(6, label + "k")
    if c == 0:
        return None
    if c == 1:
        return ["t0", tape.choice(20, label + "i"), [0, 0, 1, -1, 1e-6, -1e-6][tape.choice(6, label + "d")]]
    if c == 2:
        return ["t1", tape.choice(20, label + "i"), [0, 0, 1, -1, 1e-6, -1e-6][tape.choice(6, label + "d")]]
    if c == 3:
        return ["abs", F.ANCHORS[tape.choice(len(F.ANCHORS), label + "a")], 0]
    if c == 4:
        return ["abs", tape.choice(70 * 86400, label + "s"), 0]
    return ["abs", tape.choice(3 * 86400, label + "s") - 86400, 0]


def gen_query(tape, label):
    return [gen_point(tape, label + "0"), gen_point(tape, label + "1")]


def gen_filters(tape, two=False):
    f = _gen_filters1(tape)
    if two and tape.flag("filter_mode", 1, 2):
        f = dict(f or {})
        c = tape.choice(3, "mfilt")
        v = tape.pick(F.MODES, "mv")
        if c == 0:
            f["mode"] = v
        elif c == 1:
            f["!mode"] = v
        else:
            # black list entries for both placeholders, second one first
            f = {"!mode": v, **{k: x for k, x in f.items()}}
    return f or None


INVALID_REGEX = "n1("      # filter values are regular expressions; this is none


def invalid_filter(filters):
    return bool(filters) and any(
        INVALID_REGEX in (v if isinstance(v, list) else [v]) for v in filters.values())


def _gen_filters1(tape):
    c = tape.choice(7, "filt")
    if c == 6:
        # a user error: the call has to fail (or find nothing) every time it
        # is made - it must not leave state behind that answers the repetition
        return {"sat": INVALID_REGEX}
    if c <= 1:
        return None
    if c == 2:
        return {"sat": tape.pick(F.SATS, "fv")}
    if c == 3:
        return {"sat": [tape.pick(F.SATS, "fv"), tape.pick(F.SATS, "fv2")]}
    if c == 4:
        return {"!sat": tape.pick(F.SATS, "fv")}
    return {"!sat": [tape.pick(F.SATS, "fv"), tape.pick(F.SATS, "fv2")]}


def resolve(pt, files_cov, default):
    if pt is None:
        return default
    kind, i, d = pt
    if kind == "abs":
        return F.BASE + timedelta(seconds=i)
    if not files_cov:
        return F.BASE + timedelta(seconds=3600 * i)
    cov = files_cov[i % len(files_cov)]
    base = cov[0] if kind == "t0" else cov[1]
    try:
        return base + timedelta(seconds=d)
    except OverflowError:
        return base


class _Accepted(Exception):
    """typhon accepted an input the model has no meaning for."""


class Run:
    stopped = False

    def __init__(self, w, tape, scratch):
        self.w, self.tape = w, tape
        self.t = w["t"]
        self.be = F.Backend(w["backend"], tape, scratch)
        self.tcov = self.t["time_coverage"]
        self.files = []          # dicts with t0,t1 datetimes, sat, path
        self.V = []
        self.probes = {}
        self.answers = []
        self.nontrivial = 0
        self.changes = 0
        self.queries = 0
        self.fs = None
        self.single_cov = (F.BASE + timedelta(days=1), F.BASE + timedelta(days=3))

    def probe(self, k):
        self.probes[k] = self.probes.get(k, 0) + 1

    def cov(self, f):
        if self.w["single"]:
            return self.single_cov
        return F.coverage_of(self.t, f, self.tcov)

    def add_file(self, f):
        f = dict(f, t0=datetime.fromisoformat(f["t0"]) if isinstance(f["t0"], str) else f["t0"],
                 t1=datetime.fromisoformat(f["t1"]) if isinstance(f["t1"], str) else f["t1"])
        if not F.precondition_ok(self.t, f, self.tcov):
            return False
        p = F.path_of(self.t, f, self.be.root)
        if any(x["path"] == p for x in self.files):
            return False
        f["path"] = p
        self.be.add(p)
        self.files.append(f)
        junk = self.w.get("junk", 0)
        if junk and (len(self.files) + junk) % 3 == 0:
            # left-overs next to a member: a backup copy, an interrupted
            # download - names that only *begin* like a file of the set
            self.be.add(p + [".bak", ".part", "~"][junk % 3])
            self.probe("leftover_entries_next_to_members")
            dirs = F.DIRS[self.t["dirs"]]
            if junk == 3 and "{day}" in dirs and "{month}" in dirs:
                # a pre-provisioned directory skeleton: day directories that
                # are no calendar dates (02/30, 04/31)
                parts = [c.replace("{year}", f"{f['t0'].year:04d}").replace("{month}", "02")
                         .replace("{day}", "30").replace("{hour}", "00")
                         .replace("{sat}", "a").replace("*", "x") for c in dirs]
                self.be.add("/".join([self.be.root] + parts + ["stray.tmp"]))
                self.probe("day_directory_that_is_no_date")
        c = self.cov(f)
        lim = F.dir_period(F.DIRS[self.t["dirs"]])
        if lim is not None and _dir_of(c[0], lim) != _dir_of(c[1], lim):
            self.probe("file_crosses_directory_boundary")
        return True

    def make_fileset(self):
        w = self.w
        FileSet = F._T["FileSet"]
        kw = {}
        fsobj = self.be.materialise()
        if fsobj is not None:
            kw["fs"] = fsobj
        if w["single"]:
            self.single_cov = (F.BASE + timedelta(days=1), F.BASE + timedelta(days=3))
            path = self.files[0]["path"] if self.files else self.be.root + "/nothing.dat"
            self.fs = FileSet(path, name="S", time_coverage=self.single_cov, **kw)
            self.files = self.files[:1]
            return
        tmpl = F.template_string(self.t, self.be.root)
        ex_names = self.ex_names()
        ex_periods = [tuple(p) for p in self.ex_periods()]
        if w["exclude_via"] == "ctor":
            kw["exclude"] = ex_names + ex_periods
        relative = w.get("relative_cwd") and w["backend"] == "local"
        if relative:
            # the template is given relative to the working directory, which
            # the process changes afterwards (a FileSet keeps meaning the files
            # it was created for)
            os.chdir(os.path.dirname(self.be.root))
            tmpl = os.path.relpath(tmpl)
            self.probe("relative_template_then_chdir")
        decoy = DECOYS[w["path_setter"] - 1] if w.get("path_setter") and not relative \
            else None
        if decoy is not None:
            # the decoy carries the same user placeholders as the real template
            # (an assignment keeps the placeholders of the old path registered;
            # see DESIGN.md, observations)
            decoy += ("{sat}" if F.uses_sat(self.t) else "x") + \
                ("-{mode}" if self.t.get("mode_in_name") else "")
        self.fs = FileSet(tmpl if decoy is None else self.be.root + "/" + decoy,
                          name="S",
                          time_coverage=timedelta(seconds=self.tcov) if self.tcov else None,
                          **kw)
        if decoy is not None:
            # the object was created for another layout and is re-pointed:
            # nothing of the old template may survive the assignment
            self.fs.path = tmpl
            self.probe("fileset_repointed_by_path_assignment")
        if relative:
            os.chdir("/")
        if w["exclude_via"] == "methods":
            given = list(ex_names)
            self.fs.exclude_files(given)
            given.clear()             # the caller goes on using its own list
            self.fs.exclude_times(ex_periods)
        if ex_names:
            self.probe("exclude_name")
        if ex_periods:
            self.probe("exclude_period")

    def ex_names(self):
        if not self.files0:
            return []
        return sorted({self.files0[i % len(self.files0)] for i in self.w["exclude_names"]})

    def ex_periods(self):
        covs = self.covs0
        out = []
        for a, b in self.w["exclude_periods"]:
            x = resolve(a, covs, F.BASE)
            y = resolve(b, covs, F.BASE + timedelta(days=80))
            if y < x:
                x, y = y, x
            out.append([x, y])
        return out

    def excluded(self, f):
        if self.w["single"]:
            return False
        if f["path"] in self.ex_names_now:
            return True
        c = self.cov(f)
        return any(c[0] <= p[1] and c[1] >= p[0] for p in self.ex_periods_now)

    def passes(self, f, filters):
        if not filters:
            return True
        for k, v in filters.items():
            vals = v if isinstance(v, list) else [v]
            have = f.get(k.lstrip("!"))
            if k.startswith("!"):
                if have in vals:
                    return False
            else:
                if have not in vals:
                    return False
        return True

    def expected(self, start, end, filters):
        out = []
        for f in self.files:
            c = self.cov(f)
            if c[0] < end and c[1] >= start and not self.excluded(f) \
                    and self.passes(f, filters):
                out.append(f)
        out.sort(key=lambda f: (self.cov(f)[0], self.cov(f)[1]))
        return out

    # -- the history ---------------------------------------------------------------
    def run(self):
        w = self.w
        for f in w["files"]:
            self.add_file(f)
        self.files0 = [f["path"] for f in self.files]
        self.covs0 = [self.cov(f) for f in self.files] if not w["single"] else []
        if w["single"]:
            self.covs0 = []
        try:
            self.make_fileset()
        except Exception as e:  # noqa: typhon refused a legal configuration
            self.V.append(_viol(f"C01/constructor/exception/{type(e).__name__}",
                                f"FileSet(...) raised {type(e).__name__}: {e}"[:300]))
            return
        self.ex_names_now = set(self.ex_names()) if not w["single"] else set()
        self.ex_periods_now = self.ex_periods() if not w["single"] else []
        starts = [f["t0"] for f in self.files]
        if len(set(starts)) < len(starts):
            self.probe("duplicate_start_times")
        self.probe("backend_" + w["backend"])
        ops = w["ops"]
        i = 0
        while i < len(ops):
            if w.get("two_callers") and i + 1 < len(ops) and \
                    ops[i]["op"] in self.QUERIES and ops[i + 1]["op"] in self.QUERIES:
                self.run_pair(i)
                i += 2
                continue
            self.guarded_op(i, ops[i])
            i += 1
        if getattr(self.be.fs, "permuted", 0):
            self.probe("listing_permuted")

    QUERIES = QUERIES
    PREFIX = "C01"

    def guarded_op(self, i, o):
        if self.stopped:
            return
        try:
            self.op(i, o)
        except _Accepted:
            self.stopped = True       # the rest of the history is not judged
        except AssertionError:
            raise
        except Exception as e:  # noqa: anything typhon raised outside the guarded calls
            if type(e).__module__.startswith("sim."):
                raise
            self.V.append(_viol(
                f"{self.PREFIX}/{o['op']}/exception/{type(e).__name__}",
                f"operation {o['op']}: {type(e).__name__}: {e}"[:300]))

    def run_pair(self, i):
        """Two consecutive queries as two caller threads of one FileSet."""
        from sim.kernel import Sim, Deadlock, StepCap
        from sim.linepreempt import LinePreempt, periodic_points
        w = self.w
        ops = w["ops"]
        sim = Sim(self.tape, {"kind": "random", "bias": 1 + self.tape.choice(4, "bias")},
                  step_cap=6000)
        sim.line_preempt = LinePreempt(
            sim, [F._T["fsmod"]],
            periodic_points(1 + w["line_stride"] % 5, w["line_stride"], 300),
            only="caller", store_points=periodic_points(1, w["store_stride"], 300))
        self.probe("two_caller_threads")

        def caller(k):
            sim.yield_(f"caller{k}")
            self.guarded_op(i + k, ops[i + k])

        def main():
            a = sim.spawn("caller0", caller, 0)
            b = sim.spawn("caller1", caller, 1)
            sim.block_until(lambda: a.done and b.done, "join")
            for t in (a, b):
                if t.exc is not None:
                    raise t.exc

        try:
            sim.run(main)
        except (Deadlock, StepCap) as e:
            self.V.append(_viol(f"{self.PREFIX}/two-callers/no-termination", str(e)[:200]))
        if sim.line_preempt.fired:
            self.probe("line_preemptions_in_callers")
        self.answers.append(sim.digest())

    def op(self, i, o):
        kind = o["op"]
        w = self.w
        NoFilesError = F._T["NoFilesError"]
        if kind == "create":
            if o["file"] and not w["single"] and self.add_file(o["file"]):
                self.changes += 1
                if self.queries:
                    self.probe("created_after_first_query")
            return
        if kind == "delete":
            if self.files and not w["single"]:
                f = self.files.pop(o["idx"] % len(self.files))
                self.be.remove(f["path"])
                self.changes += 1
            return
        if kind == "reset_cache":
            self.fs.reset_cache()
            return
        if kind == "other_fileset":
            if w["single"]:
                return
            self.probe("other_fileset_object_used")
            decoy = self.be.root + "/" + DECOYS[o["decoy"]] + \
                ("{sat}" if F.uses_sat(self.t) else "x") + \
                ("-{mode}" if self.t.get("mode_in_name") else "")
            try:
                if o["how"] == "copy":
                    other = self.fs.copy()
                    other.path = decoy
                else:
                    kw = {}
                    fsobj = self.be.materialise()
                    if fsobj is not None:
                        kw["fs"] = fsobj
                    other = F._T["FileSet"](decoy, name="OTHER", **kw)
                if o["what"][0] and F.uses_sat(self.t):
                    other.set_placeholders(sat="q1+")
                if o["what"][1] and self.files:
                    other.exclude_files([f["path"] for f in self.files])
                    other.exclude_times([(datetime.min, datetime.max)])
                if o["what"][2]:
                    list(other.find(no_files_error=False))
            except Exception:  # noqa: the other object is not under test
                pass
            return
        if kind == "set_excludes":
            if w["single"]:
                return
            covs_now = [self.cov(f) for f in self.files]
            if o["how"] == "invalid":
                # a user error: a period without end. The call fails - and
                # leaves the exclusions that were in force as they were
                try:
                    self.fs.exclude_times([(F.BASE, None)])
                except Exception:  # noqa: the expected outcome
                    self.probe("exclude_times_failed_on_invalid_period")
                    return
                raise _Accepted()      # accepted: meaning unknown to the model
            if o["what"] in ("times", "both"):
                if o["how"] == "new":
                    per = []
                    for a, b in o["periods"]:
                        x = resolve(a, covs_now, F.BASE)
                        y = resolve(b, covs_now, F.BASE + timedelta(days=80))
                        per.append([min(x, y), max(x, y)])
                    self.fs.exclude_times([tuple(p) for p in per])
                    self.ex_periods_now = per
                else:
                    self.fs.exclude_times([] if o["how"] == "empty" else None)
                    self.ex_periods_now = []
                    self.probe("excludes_cleared")
            if o["what"] in ("files", "both"):
                if o["how"] == "new" and self.files:
                    names = sorted({self.files[i % len(self.files)]["path"]
                                    for i in o["names"]})
                else:
                    names = []
                given = list(names)
                self.fs.exclude_files(given)
                given.append(self.be.root + "/not-a-member")
                del given[:1]         # the caller goes on using its own list
                self.ex_names_now = set(names)
            self.changes += 1
            return
        if kind == "set_coverage":
            if not w["single"] and self.t["end"] == "none":
                self.tcov = o["tcov"]
                # keep the precondition: drop files that would now be too long
                for f in list(self.files):
                    if not F.precondition_ok(self.t, f, self.tcov):
                        self.files.remove(f)
                        self.be.remove(f["path"])
                self.fs.time_coverage = timedelta(seconds=self.tcov) if self.tcov else None
                self.changes += 1
            return
        covs = [self.cov(f) for f in self.files]
        if kind == "len":
            exp = self.expected(datetime.min, datetime.max, None)
            try:
                got = len(self.fs)
            except NoFilesError:
                got = 0
            except ValueError as e:
                if w["single"] and not self.files:
                    return
                self.V.append(_viol("C01/len/exception", f"{type(e).__name__}: {e}"))
                return
            except Exception as e:  # noqa
                self.V.append(_viol(f"C01/len/exception/{type(e).__name__}",
                                    f"{e}"[:300]))
                return
            if got != len(exp):
                self.V.append(_viol("C01/len/differs",
                                    f"len(fileset) = {got}, expected {len(exp)}"))
            return
        if kind == "dataframe":
            exp = self.expected(datetime.min, datetime.max, None)
            if not exp or w["single"]:
                return
            try:
                df = self.fs.to_dataframe(include_times=True)
            except Exception as e:  # noqa
                self.V.append(_viol("C01/to_dataframe/exception",
                                    f"{type(e).__name__}: {e}"[:300]))
                return
            if sorted(df.index) != sorted(f["path"] for f in exp):
                self.V.append(_viol("C01/to_dataframe/differs",
                                    f"{len(df)} rows, expected {len(exp)}"))
            return
        q = o["q"]
        if kind == "contains":
            t = resolve(q[0], covs, F.BASE + timedelta(days=1))
            if o["as_period"]:
                t2 = resolve(q[1], covs, t + timedelta(hours=1))
                if t2 <= t:
                    t2 = t + timedelta(seconds=1)
                exp = bool(self.expected(t, t2, None))
                item = (t, t2)
            else:
                exp = bool(self.expected(t, t + timedelta(microseconds=1), None))
                item = t
            try:
                got = item in self.fs
            except ValueError as e:
                if w["single"] and not self.files:
                    return
                self.V.append(_viol("C01/contains/exception", f"{e}"))
                return
            except Exception as e:  # noqa: anything else typhon raised
                self.V.append(_viol(f"C01/contains/exception/{type(e).__name__}",
                                    f"{item} in fileset: {e}"[:300]))
                return
            self.queries += 1
            if got != exp:
                self.V.append(_viol(
                    "C01/contains/differs",
                    f"{item} in fileset = {got}, expected {exp}; files "
                    f"{[(str(c[0]), str(c[1])) for c in covs[:6]]}"))
            return
        if "q2" in o and not w["single"] and w["backend"] != "zip":
            self.find_interleaved(o, covs)
            return
        # ---- find -------------------------------------------------------------------
        start = resolve(q[0], covs, None)
        end = resolve(q[1], covs, None)
        if start is not None and end is not None and end <= start:
            start, end = end, start
            if end <= start:
                end = start + timedelta(seconds=1)
        s_eff = start if start is not None else datetime.min
        e_eff = end if end is not None else datetime.max
        if start is None or end is None:
            self.probe("open_ended_query")
        for c in covs:
            if end is not None and c[0] == end:
                self.probe("query_end_on_file_start")
            if start is not None and c[1] == start:
                self.probe("query_start_on_file_end")
        filters = o["filters"] if not w["single"] else None
        if filters:
            self.probe("filter_black" if any(k.startswith("!") for k in filters)
                       else "filter_white")
            if len(filters) > 1:
                self.probe("filter_two_placeholders")
        exp = self.expected(s_eff, e_eff, filters)
        kw = dict(sort=o["sort"], only_path=o["only_path"], bundle=o["bundle"],
                  filters=filters, no_files_error=o["no_files_error"])
        if w["single"]:
            kw["bundle"] = None
        # the dict object handed to typhon is the caller's own; in a third of
        # the filtered searches the caller repeats the call with the very same
        # object (a filter definition used in a loop) and the repeated answer
        # is the one that is judged
        kw["filters"] = copy.deepcopy(filters)
        if invalid_filter(filters):
            self.probe("invalid_filter_repeated")
            for rep in (1, 2):
                try:
                    got = list(self.fs.find(start, end, **kw))
                except Exception:  # noqa: the expected outcome
                    continue
                if got:
                    self.V.append(_viol(
                        "C01/find/answer-for-invalid-filter",
                        f"call {rep} of find({start}, {end}, filters={filters}) "
                        f"returned {len(got)} file(s) although the filter is no "
                        f"regular expression"))
                    return
            return
        try:
            got = list(self.fs.find(start, end, **kw))
            if filters and o.get("twice"):
                self.probe("same_filters_object_reused")
                got = list(self.fs.find(start, end, **kw))
            raised = None
        except NoFilesError as e:
            got, raised = [], e
        except ValueError as e:
            if w["single"] and not self.files:
                return      # documented: path is not an existing file
            self.V.append(_viol("C01/find/exception/ValueError", f"{e}"[:300]))
            return
        except Exception as e:  # noqa
            self.V.append(_viol(f"C01/find/exception/{type(e).__name__}",
                                f"find({start}, {end}, {kw}): {e}"[:400]))
            return
        self.queries += 1
        desc = (f"find({start}, {end}, sort={o['sort']}, bundle={kw['bundle']}, "
                f"filters={filters})")
        if raised is not None:
            if exp or not o["no_files_error"]:
                self.V.append(_viol(
                    "C01/find/nofileserror",
                    f"{desc} raised NoFilesError, expected "
                    f"{[os.path.basename(f['path']) for f in exp[:5]]}"))
            return
        if not exp and o["no_files_error"] and not got and not w["single"]:
            self.V.append(_viol("C01/find/no-error-for-empty",
                                f"{desc}: empty answer but no NoFilesError"))
            return
        bundle = kw["bundle"]
        flat = got
        if bundle is not None:
            if bundle and isinstance(bundle, int):
                self.probe("bundle_int")
            else:
                self.probe("bundle_freq")
            if any(not isinstance(b, list) or not b for b in got):
                self.V.append(_viol("C01/find/bundle-shape", f"{desc}: {got[:3]}"))
                return
            if isinstance(bundle, int):
                sizes = [len(b) for b in got]
                if any(s != bundle for s in sizes[:-1]) or (sizes and sizes[-1] > bundle):
                    self.V.append(_viol("C01/find/bundle-size",
                                        f"{desc}: bundle sizes {sizes}"))
            flat = [x for b in got for x in b]
        got_paths = [F.fi_key(x) for x in flat]
        exp_paths = [f["path"] for f in exp]
        ordered = o["sort"] or bundle is not None
        self.answers.append(digest_of(
            [os.path.relpath(p, self.be.root) for p in exp_paths]))
        if len(exp) and len(exp) != len(self.files) and (self.changes or len(self.files) >= 3):
            self.nontrivial += 1
        if sorted(got_paths) != sorted(exp_paths):
            missing = sorted(set(exp_paths) - set(got_paths))
            extra = sorted(set(got_paths) - set(exp_paths))
            dup = len(got_paths) - len(set(got_paths))
            cls = "missing" if missing else ("extra" if extra else "duplicates")
            fcov = {f["path"]: self.cov(f) for f in self.files}
            self.V.append(_viol(
                f"C01/find/{cls}",
                f"{desc} on template {F.template_string(self.t, '')}: missing "
                f"{[(os.path.basename(p), str(fcov[p][0]), str(fcov[p][1])) for p in missing[:3]]}"
                f" unexpected {[os.path.basename(p) for p in extra[:3]]} "
                f"duplicates {dup}"))
            return
        if ordered:
            keys = [(self.cov(f)[0], self.cov(f)[1]) for f in
                    (next(x for x in self.files if x["path"] == p) for p in got_paths)]
            if keys != sorted(keys):
                self.V.append(_viol("C01/find/order",
                                    f"{desc}: not ordered by (start, end)"))
        if not o["only_path"] and not w["single"]:
            for x in flat:
                f = next(y for y in self.files if y["path"] == x.path)
                c = self.cov(f)
                if list(x.times) != [c[0], c[1]]:
                    self.V.append(_viol(
                        "C01/find/times",
                        f"{os.path.basename(x.path)}: times {x.times} expected {c}"))
                    break
                if (f["sat"] is not None and x.attr.get("sat") != f["sat"]) or \
                        (f.get("mode") is not None and x.attr.get("mode") != f["mode"]):
                    self.V.append(_viol("C01/find/attr",
                                        f"{os.path.basename(x.path)}: attr {x.attr}"))
                    break


def _window(q, covs):
    start = resolve(q[0], covs, None)
    end = resolve(q[1], covs, None)
    if start is not None and end is not None and end <= start:
        start, end = end, start
        if end <= start:
            end = start + timedelta(seconds=1)
    return start, end


def _find_interleaved(self, o, covs):
    """Two find(sort=False) generators of the same FileSet consumed alternately
    (pattern from the tape): each must still give exactly its own answer."""
    qs = [(o["q"], copy.deepcopy(o["filters"])), (o["q2"], copy.deepcopy(o["filters2"]))]
    qs = [(q, None if invalid_filter(f) else f) for q, f in qs]
    gens, exps, descs = [], [], []
    for q, filters in qs:
        start, end = _window(q, covs)
        exps.append(self.expected(start if start is not None else datetime.min,
                                  end if end is not None else datetime.max, filters))
        descs.append(f"find({start}, {end}, sort=False, filters={filters})")
        try:
            gens.append(iter(self.fs.find(start, end, sort=False, filters=filters,
                                          no_files_error=False)))
        except Exception as e:  # noqa
            self.V.append(_viol(f"C01/find-interleaved/exception/{type(e).__name__}",
                                f"{descs[-1]}: {e}"[:300]))
            return
    got, alive, k = [[], []], [True, True], 0
    self.probe("generators_interleaved")
    try:
        while any(alive):
            i = 1 if o["pattern"][k % len(o["pattern"])] else 0
            k += 1
            if not alive[i]:
                i = 1 - i
            try:
                got[i].append(next(gens[i]))
            except StopIteration:
                alive[i] = False
    except Exception as e:  # noqa
        self.V.append(_viol(f"C01/find-interleaved/exception/{type(e).__name__}",
                            f"{descs}: {e}"[:300]))
        return
    self.queries += 2
    for i in (0, 1):
        gp = sorted(F.fi_key(x) for x in got[i])
        ep = sorted(f["path"] for f in exps[i])
        if gp != ep:
            missing = sorted(set(ep) - set(gp))
            extra = sorted(set(gp) - set(ep))
            cls = "missing" if missing else ("extra" if extra else "duplicates")
            self.V.append(_viol(
                f"C01/find-interleaved/{cls}",
                f"{descs[i]} consumed alternately with {descs[1 - i]}: missing "
                f"{[os.path.basename(p) for p in missing[:3]]} unexpected "
                f"{[os.path.basename(p) for p in extra[:3]]}"))
            return


Run.find_interleaved = _find_interleaved


def _dir_of(t, lim):
    if lim <= timedelta(hours=1):
        return (t.year, t.month, t.day, t.hour)
    if lim <= timedelta(days=1):
        return (t.year, t.month, t.day)
    if lim <= timedelta(days=28):
        return (t.year, t.month)
    return (t.year,)


def run_one(tape, only=None):
    F._T["state"].restore()      # each run models a fresh interpreter
    res = new_result()
    w = gen_workload(tape)
    scratch = fresh_dir(scratch_root(), "c01")
    try:
        run = Run(w, tape, scratch)
        with warnings.catch_warnings():
            warnings.simplefilter("ignore")
            run.run()
    finally:
        os.chdir("/")           # the working directory is process state, too
        shutil.rmtree(scratch, ignore_errors=True)
    seen, uniq = set(), []
    for v in run.V:
        if v["signature"] not in seen:
            seen.add(v["signature"])
            uniq.append(v)
    wd = digest_of(w)
    res["violations"] = uniq
    res["probes"] = run.probes
    res["executions"] = max(1, run.queries)
    res["nontrivial"] = run.nontrivial > 0
    res["wdigest"] = wd
    res["edigest"] = digest_of(run.answers)
    res["faults"] = {"listing_order_permuted": getattr(run.be.fs, "permuted", 0)} \
        if getattr(run.be.fs, "permuted", 0) else {}
    if run.probes.get("invalid_filter_repeated"):
        res["faults"]["call_failed_on_invalid_filter"] = run.probes["invalid_filter_repeated"]
    res["kinds"] = [f"backend={w['backend']}", f"dirs={'/'.join(F.DIRS[w['t']['dirs']]) or '-'}"]
    res["counters"] = {"queries": run.queries, "state_changes": run.changes,
                       "files": len(run.files)}
    res["sample"] = {
        "backend": w["backend"], "template": F.template_string(w["t"], "<root>"),
        "time_coverage": w["t"]["time_coverage"], "single_file": w["single"],
        "files": [os.path.relpath(f["path"], run.be.root) for f in run.files][:8],
        "ops": [_plain(o) for o in w["ops"]],
        "exclude_periods": len(w["exclude_periods"]), "exclude_names": len(w["exclude_names"]),
    }
    return res


def _plain(o):
    return {k: v for k, v in o.items() if k != "file"}
