"""Shared engine of C01 (find) and C16 (find_closest): FileSet on a simulated
file system.

Simulated system: `FileSet(fs=SimFS)` where SimFS is an in-memory fsspec file
system owned by the harness (directory listings returned in tape-chosen order)
- and, as other configurations, the same tree on LocalFileSystem (scratch dir)
and inside a ZipFileSystem.  One run = one tape-drawn template + population +
a history of create / delete / query operations with the info cache kept
between them.  Oracle = brute force over the harness's own list of files with
the coverage derived by the harness's own name model (props/naming.py).
"""
import os
import shutil
import warnings
import zipfile
from datetime import datetime, timedelta

from fsspec.implementations.memory import MemoryFileSystem
from fsspec.implementations.local import LocalFileSystem

from sim.runner import new_result, scratch_root
from sim.seams import import_typhon, fresh_dir
from sim import digest_of
from props import naming

_T = {}


def setup():
    import_typhon()
    import typhon.files.fileset as fsmod
    from typhon.files import FileSet
    from typhon.files.handlers.common import FileHandler, FileInfo
    _T.update(fsmod=fsmod, FileSet=FileSet, FileHandler=FileHandler,
              FileInfo=FileInfo, NoFilesError=fsmod.NoFilesError)
    from sim.seams import typhon_state
    _T["state"] = typhon_state()


class SimFS(MemoryFileSystem):
    """In-memory file system whose listing order is decided by the tape."""
    protocol = "simfs"
    cachable = False

    def __init__(self, tape=None, **kw):
        super().__init__(skip_instance_cache=True, **kw)
        self.store = {}
        self.pseudo_dirs = [""]
        self._tape = tape
        self.ls_calls = 0
        self.permuted = 0

    # MemoryFileSystem.find walks its store directly; use the generic,
    # ls-based implementation so that listing order is really in the loop
    from fsspec.spec import AbstractFileSystem as _A
    find = _A.find
    del _A

    def ls(self, path, detail=True, **kwargs):
        out = super().ls(path, detail=detail, **kwargs)
        self.ls_calls += 1
        if self._tape is not None and len(out) > 1:
            c = self._tape.choice(3, "lsorder")
            if c == 1:
                out = list(reversed(out))
                self.permuted += 1
            elif c == 2:
                k = 1 + self._tape.choice(len(out) - 1, "lsrot")
                out = out[k:] + out[:k]
                self.permuted += 1
        return out


# ------------------------------------------------------------------ templates
DIRS = [
    [],
    ["{year}"],
    ["{year}", "{month}"],
    ["{year}", "{month}", "{day}"],
    ["{year}", "{doy}"],
    ["{year}", "{month}", "{day}", "{hour}"],
    ["{year}{month}{day}"],
    ["{sat}", "{year}", "{month}"],
    ["{year}", "{sat}", "{doy}"],
    ["archive", "{year2}", "{month}"],
    ["*", "{year}", "{month}", "{day}"],
    ["{year}", "{month}{day}"],
    ["{sat}"],
    ["{year}", "m{month}", "{day}"],
    ["{year}", "fixed", "{month}", "{day}"],        # literal level in the middle
    ["{year}", "{month}", "{day}", "{sat}"],        # user placeholder below the day
]
STARTS = {
    "full_s": "{year}{month}{day}_{hour}{minute}{second}",
    "full_m": "{year2}{doy}{hour}{minute}",
    "full_ms": "{year}-{month}-{day}T{hour}{minute}{second}{millisecond}",
    "rest_s": "{hour}{minute}{second}",        # needs a directory down to the day
    "rest_d": "{day}_{hour}{minute}{second}",  # needs year+month in the directory
}
ENDS = {"none": "", "partial": "-{end_hour}{end_minute}{end_second}",
        "full": "-{end_year}{end_month}{end_day}{end_hour}{end_minute}{end_second}"}
SATS = ["a", "bb", "x9"]
MODES = ["m1", "zz"]
BASE = datetime(2017, 12, 30)


def dir_period(chunks):
    """Finest temporal level of the directory part -> maximal file duration
    allowed by the property's precondition (None = no temporal directory)."""
    ph = set()
    for c in chunks:
        ph.update(naming.placeholders(c))
    if "hour" in ph:
        return timedelta(hours=1)
    if "day" in ph or "doy" in ph:
        return timedelta(days=1)
    if "month" in ph:
        return timedelta(days=28)
    if "year" in ph or "year2" in ph:
        return timedelta(days=365)
    return None


def typhon_dir_resolution(chunks):
    """The +-window find_closest is documented to use: one period of the finest
    directory level, 31 d for month, 366 d for year (and for a directory part
    that has placeholders but no temporal one); None without sub directory."""
    special = any(ch in c for c in chunks for ch in "{*")
    if not special:
        return None
    ph = set()
    for c in chunks:
        ph.update(naming.placeholders(c))
    if "hour" in ph:
        return timedelta(hours=1)
    if "day" in ph or "doy" in ph:
        return timedelta(days=1)
    if "month" in ph:
        return timedelta(days=31)
    return timedelta(days=366)


def gen_template(tape):
    t = {}
    t["dirs"] = tape.choice(len(DIRS), "dirs")
    chunks = DIRS[t["dirs"]]
    ph = set()
    for c in chunks:
        ph.update(naming.placeholders(c))
    has_day = ("day" in ph or "doy" in ph) and ("year" in ph or "year2" in ph)
    has_month = "month" in ph and ("year" in ph or "year2" in ph)
    starts = ["full_s", "full_m", "full_ms"]
    if has_day:
        starts.append("rest_s")
    if has_month and "day" not in ph:
        starts.append("rest_d")
    t["start"] = tape.pick(starts, "start")
    t["end"] = tape.pick(["none", "partial", "full"], "end")
    if t["start"] == "full_m" and t["end"] != "none":
        t["end"] = "none"          # minute resolution names carry no end here
    t["sat_in_name"] = "sat" not in ph and tape.flag("sat_in_name", 1, 3)
    # a second user placeholder (only together with the first one)
    t["mode_in_name"] = ("sat" in ph or t["sat_in_name"]) and tape.flag("mode_in_name", 1, 3)
    t["time_coverage"] = None
    if t["end"] == "none":
        t["time_coverage"] = tape.pick([None, 60, 3600, 86400 - 1], "tcov")
    return t


def template_string(t, root):
    chunks = DIRS[t["dirs"]]
    name = STARTS[t["start"]] + ENDS[t["end"]]
    if t["sat_in_name"]:
        name += "_{sat}"
    if t.get("mode_in_name"):
        name += "_{mode}"
    name += ".dat"
    return "/".join([root] + chunks + [name])


def uses_sat(t):
    return t["sat_in_name"] or any("{sat}" in c for c in DIRS[t["dirs"]])


def resolution_td(t):
    return {"full_s": timedelta(seconds=1), "rest_s": timedelta(seconds=1),
            "rest_d": timedelta(seconds=1), "full_m": timedelta(minutes=1),
            "full_ms": timedelta(milliseconds=1)}[t["start"]]


# ----------------------------------------------------------------- population
ANCHORS = [0, 86400 - 1800, 86400, 2 * 86400 - 60, 2 * 86400,        # year end
           32 * 86400, 33 * 86400 - 30, 60 * 86400, 61 * 86400 + 7200,
           3600, 7200 - 1, 43200]


def gen_time(tape, t, label):
    """A start time at the template's resolution, biased towards boundaries."""
    mode = tape.choice(4, label + "mode")
    if mode == 0:
        sec = ANCHORS[tape.choice(len(ANCHORS), label + "anch")]
    elif mode == 1:
        sec = ANCHORS[tape.choice(len(ANCHORS), label + "anch")] \
            + tape.choice(7200, label + "off") - 3600
    elif mode == 2:
        sec = tape.choice(3 * 86400, label + "sec")
    else:
        sec = tape.choice(70 * 86400, label + "sec")
    x = BASE + timedelta(seconds=sec)
    if t["start"] == "full_m":
        x = x.replace(second=0)
    elif t["start"] == "full_ms" and tape.flag(label + "ms", 1, 2):
        x += timedelta(milliseconds=tape.choice(1000, label + "msv"))
    return x


def gen_files(tape, t, n):
    chunks = DIRS[t["dirs"]]
    maxdur = dir_period(chunks)
    files = []
    seen = set()
    for _ in range(n):
        if files and tape.flag("dup_start", 1, 8) and uses_sat(t):
            t0 = tape.pick(files, "dupof")["t0"]
        else:
            t0 = gen_time(tape, t, "f")
        sat = tape.pick(SATS, "sat") if uses_sat(t) else None
        mode = tape.pick(MODES, "mode") if t.get("mode_in_name") else None
        if t["end"] == "none":
            t1 = t0
        else:
            lim = maxdur if maxdur is not None else timedelta(days=3)
            if t["end"] == "partial":
                lim = min(lim, timedelta(hours=23, minutes=59))
            durs = [0, 1, 59, 3600, 7200 + 5, 86400 - 1, 86400, 5 * 86400, 27 * 86400]
            durs = [d for d in durs if timedelta(seconds=d) <= lim]
            t1 = t0 + timedelta(seconds=tape.pick(durs, "dur"))
            if t["start"] == "full_ms" and t["end"] != "none":
                pass
        key = (t0, t1 if t["end"] != "none" else None, sat, mode)
        if key in seen:
            continue
        seen.add(key)
        files.append({"t0": t0, "t1": t1, "sat": sat, "mode": mode})
    return files


def coverage_of(t, f, tcov):
    tmpl = template_string(t, "R")
    return naming.coverage(tmpl, f["t0"], f["t1"],
                           timedelta(seconds=tcov) if tcov else None)


def precondition_ok(t, f, tcov):
    """File lasts no longer than the finest directory period (property text)."""
    cov = coverage_of(t, f, tcov)
    if cov is None:
        return False
    lim = dir_period(DIRS[t["dirs"]])
    return lim is None or (cov[1] - cov[0]) <= lim


def path_of(t, f, root):
    user = {"sat": f["sat"]} if f["sat"] is not None else {}
    if f.get("mode") is not None:
        user["mode"] = f["mode"]
    p = naming.fmt(template_string(t, root), f["t0"], f["t1"], **user)
    return p.replace("/*/", "/wild/")


# -------------------------------------------------------------------- backends
class Backend:
    """Where the tree lives: 'sim' (SimFS), 'local', 'zip'."""

    def __init__(self, kind, tape, scratch):
        self.kind = kind
        self.scratch = scratch
        if kind == "sim":
            self.fs = SimFS(tape)
            self.root = "/simroot/data"
            self.fs.makedirs(self.root, exist_ok=True)
        elif kind == "local":
            self.fs = None           # FileSet default
            self.root = os.path.join(scratch, "data")
            os.makedirs(self.root)
        else:
            self.root = "data"
            self.zip_path = os.path.join(scratch, "tree.zip")
            self.pending = set()
            self.fs = None

    def add(self, path):
        if self.kind == "sim":
            self.fs.makedirs(os.path.dirname(path), exist_ok=True)
            self.fs.pipe_file(path, b"")
        elif self.kind == "local":
            os.makedirs(os.path.dirname(path), exist_ok=True)
            open(path, "wb").close()
        else:
            self.pending.add(path)

    def remove(self, path):
        if self.kind == "sim":
            self.fs.rm_file(path)
        elif self.kind == "local":
            os.remove(path)
        else:
            self.pending.discard(path)

    def materialise(self):
        """zip: (re)build the archive and return a fresh file system on it."""
        if self.kind != "zip":
            return self.fs
        from fsspec.implementations.zip import ZipFileSystem
        with zipfile.ZipFile(self.zip_path, "w") as z:
            z.writestr("data/", "")
            for p in sorted(self.pending):
                z.writestr(p, b"")
        return ZipFileSystem(self.zip_path, skip_instance_cache=True)


def _viol(sig, msg, extra=None):
    return {"signature": sig, "message": msg, "extra": extra}


def fi_key(x):
    return x.path if hasattr(x, "path") else str(x)
