"""The harness's own file-name formatter and coverage model (independent of
typhon.files.fileset.get_filename / parse_filename).

A template is a str.format pattern over the documented placeholders.  `fmt`
fills it from (t0, t1, user values); `coverage` says which [start, end] typhon is
*supposed* to derive from such a name according to the property text:
  - end spelled out as completely as the start  -> exactly t1
  - partial end (hour/minute/second only)       -> missing fields from the start,
                                                   moved to the next day if before it
  - no end fields                               -> start + time_coverage (or start)
"""
from datetime import datetime, timedelta


def fields(t, prefix=""):
    doy = (t - datetime(t.year, 1, 1)).days + 1
    return {
        prefix + "year": f"{t.year:04d}",
        prefix + "year2": f"{t.year % 100:02d}",
        prefix + "month": f"{t.month:02d}",
        prefix + "day": f"{t.day:02d}",
        prefix + "doy": f"{doy:03d}",
        prefix + "hour": f"{t.hour:02d}",
        prefix + "minute": f"{t.minute:02d}",
        prefix + "second": f"{t.second:02d}",
        prefix + "millisecond": f"{t.microsecond // 1000:03d}",
    }


def fmt(template, t0, t1=None, **user):
    d = fields(t0)
    d.update(fields(t1 if t1 is not None else t0, "end_"))
    d.update(user)
    return template.format(**d)


def placeholders(template):
    import re
    return re.findall(r"{(\w+)}", template)


def coverage(template, t0, t1, time_coverage=None):
    """Coverage the property promises for a file named fmt(template, t0, t1)."""
    ph = set(placeholders(template))
    ends = {p[4:] for p in ph if p.startswith("end_")}
    res_s = start_resolution(template)
    s = truncate(t0, res_s)
    if not ends:
        if time_coverage is not None:
            return s, s + time_coverage
        return s, s
    # build the end from the fields present, the rest from the start
    e = {"year": s.year, "month": s.month, "day": s.day, "hour": s.hour,
         "minute": s.minute, "second": s.second, "microsecond": s.microsecond}
    if "year" in ends or "year2" in ends:
        e["year"] = t1.year
    if "doy" in ends:
        e["month"], e["day"] = t1.month, t1.day
    if "month" in ends:
        e["month"] = t1.month
    if "day" in ends:
        e["day"] = t1.day
    for f in ("hour", "minute", "second"):
        if f in ends:
            e[f] = getattr(t1, f)
    if "millisecond" in ends:
        e["microsecond"] = (t1.microsecond // 1000) * 1000
    try:
        end = datetime(**e)
    except ValueError:
        return None
    if end < s:
        # rolls over by the unit above the coarsest given end field
        order = ["year", "month", "day", "hour", "minute", "second", "millisecond"]
        given = [f for f in order if f in ends or (f == "year" and "year2" in ends)
                 or (f == "day" and "doy" in ends)]
        coarsest = given[0]
        step = {"month": timedelta(days=366), "day": timedelta(days=31),
                "hour": timedelta(days=1), "minute": timedelta(hours=1),
                "second": timedelta(minutes=1),
                "millisecond": timedelta(seconds=1)}.get(coarsest)
        if step is None:
            return None
        end += step
    return s, end


def start_resolution(template):
    ph = set(p for p in placeholders(template) if not p.startswith("end_"))
    for name in ("millisecond", "second", "minute", "hour"):
        if name in ph:
            return name
    if "day" in ph or "doy" in ph:
        return "day"
    if "month" in ph:
        return "month"
    return "year"


def truncate(t, res):
    if res == "millisecond":
        return t.replace(microsecond=(t.microsecond // 1000) * 1000)
    if res == "second":
        return t.replace(microsecond=0)
    if res == "minute":
        return t.replace(second=0, microsecond=0)
    if res == "hour":
        return t.replace(minute=0, second=0, microsecond=0)
    if res == "day":
        return t.replace(hour=0, minute=0, second=0, microsecond=0)
    if res == "month":
        return t.replace(day=1, hour=0, minute=0, second=0, microsecond=0)
    return t.replace(month=1, day=1, hour=0, minute=0, second=0, microsecond=0)
