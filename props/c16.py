"""C16 - indexing a fileset by a timestamp returns the covering or nearest file.
(engine shared with C01: props/fsfind.py)"""
import os
import shutil
import warnings
from datetime import datetime, timedelta

from sim.runner import new_result, scratch_root
from sim.seams import fresh_dir
from sim import digest_of
from props import fsfind as F
from props.fsfind import _viol
from props import c01 as C1

PROPERTY_ID = "C16"
LEVEL = "exploration"
RULE = (
    "one case = one seeded history on a simulated file system (same template "
    "and population generator as C01): create / delete file, reset_cache and "
    "find_closest(t[, filters]) / fileset[t] queries with t drawn inside a "
    "file, in a gap, exactly on a start or end, one resolution step beside it, "
    "before the first / after the last file, in an empty directory. Oracle: "
    "the property's rule over the harness's file list restricted to the "
    "neighbourhood [t - res, t + res). Non-trivial = the neighbourhood holds "
    ">= 2 candidate files, or the expected answer is 'no file' while files "
    "exist. Distinct = distinct (workload digest, answer digest).")
ASSUMPTIONS = [
    "timestamps are given at the resolution of the file names (the property's "
    "precondition)",
    "'one sub-directory period' = the finest temporal level of the directory "
    "part (31 d for month, 366 d for year or for a directory part without "
    "temporal placeholder); no sub directory = all files",
    "ties (equal distance, several covering files) may be answered by any of "
    "the tied files",
    "the timestamp space is sampled by a boundary-biased generator, not "
    "enumerated",
]
COMPONENTS = C1.COMPONENTS
DEFAULTS = {
    "quick": {"budget_s": 45, "chunk": 25, "per_run_wall": 120, "minimise_s": 60},
    "thorough": {"budget_s": 900, "chunk": 60, "per_run_wall": 120,
                 "minimise_s": 300},
}
REQUIRED_PROBES = ["t_inside_file", "t_in_gap", "t_on_boundary", "t_outside_all",
                   "no_file_expected", "exact_name_shortcut_possible",
                   "several_candidates", "with_filters", "getitem", "excluded_nearby",
                   "backend_zip", "backend_local"]


def setup():
    F.setup()


def reader(file_info):
    return ("content-of", file_info.path)


def gen_workload(tape):
    w = {}
    w["backend"] = tape.pick(["sim", "sim", "sim", "local", "zip"], "backend")
    w["single"] = tape.flag("single_file", 1, 12)
    t = F.gen_template(tape)
    w["t"] = t
    n = tape.count(0, 12, "nfiles", (5, 6))
    w["files"] = [dict(f, t0=f["t0"].isoformat(), t1=f["t1"].isoformat())
                  for f in F.gen_files(tape, t, n)
                  if F.precondition_ok(t, f, t["time_coverage"])]
    ops = []
    for _ in range(tape.count(4, 10, "nops", (4, 5))):
        kinds = ["closest", "closest", "closest", "getitem", "create", "delete",
                 "closest", "reset_cache", "set_coverage", "other_fileset"]
        if w["backend"] == "zip":
            kinds = ["closest", "closest", "getitem"]
        o = {"op": tape.pick(kinds, "op")}
        if o["op"] in ("closest", "getitem"):
            o["q"] = gen_t(tape)
            o["filters"] = C1.gen_filters(tape, t.get("mode_in_name")) if F.uses_sat(t) else None
            o["as_str"] = tape.flag("as_str", 1, 5)
            # a caller looping over timestamps passes the very same dict again
            o["reuse_filters"] = tape.flag("reuse_filters", 1, 2)
        elif o["op"] == "create":
            fs = F.gen_files(tape, t, 1)
            o["file"] = dict(fs[0], t0=fs[0]["t0"].isoformat(),
                             t1=fs[0]["t1"].isoformat()) if fs else None
        elif o["op"] == "other_fileset":
            o["how"] = tape.pick(["copy", "fresh"], "other_how")
            o["decoy"] = tape.choice(len(C1.DECOYS), "other_decoy")
            o["what"] = [tape.flag("other_ph", 2, 3), tape.flag("other_excl", 1, 2),
                         tape.flag("other_find", 2, 3)]
        elif o["op"] == "delete":
            o["idx"] = tape.choice(20, "didx")
        elif o["op"] == "set_coverage":
            o["tcov"] = tape.pick([None, 60, 3600, 600], "ntcov")
        ops.append(o)
    w["ops"] = ops
    w["exclude_names"] = [tape.choice(20, "exn") for _ in range(tape.count(0, 2, "nexn", (1, 3)))]
    w["exclude_periods"] = []
    for _ in range(tape.count(0, 2, "nexp", (1, 4))):
        a, b = C1.gen_point(tape, "exa"), C1.gen_point(tape, "exb")
        if a is not None and b is not None:
            w["exclude_periods"].append(sorted([a, b]))
    w["exclude_via"] = tape.pick(["ctor", "methods"], "exvia")
    w["path_setter"] = tape.choice(1 + len(C1.DECOYS), "path_setter") \
        if tape.flag("via_path_setter", 1, 5) else 0
    w["relative_cwd"] = tape.flag("relative_cwd", 1, 3)     # local backend only
    w["junk"] = tape.choice(4, "junk") if tape.flag("junk_entries", 1, 4) else 0
    # two caller threads share the FileSet (see props/c01.py)
    w["two_callers"] = w["backend"] == "sim" and tape.flag("two_callers", 1, 6)
    w["line_stride"] = 7 + tape.choice(40, "linestride") if w["two_callers"] else 0
    w["store_stride"] = 1 + tape.choice(4, "storestride") if w["two_callers"] else 0
    return w


def gen_t(tape):
    """(kind, file index, steps): resolved at run time at name resolution."""
    c = tape.choice(7, "tk")
    if c == 0:
        return ["t0", tape.choice(20, "ti"), tape.pick([0, 0, 1, -1, 2, -3], "td")]
    if c == 1:
        return ["t1", tape.choice(20, "ti"), tape.pick([0, 0, 1, -1, 2, -3], "td")]
    if c == 2:
        return ["mid", tape.choice(20, "ti"), 0]
    if c == 3:
        return ["gap", tape.choice(20, "ti"), tape.choice(100, "tf")]
    if c == 4:
        return ["abs", tape.choice(70 * 86400, "ts") - 86400, 0]
    if c == 5:
        return ["abs", F.ANCHORS[tape.choice(len(F.ANCHORS), "ta")], 0]
    return ["far", tape.pick([-400, 400, -40, 40, -2, 2], "tfar"), 0]


class Run(C1.Run):
    QUERIES = ("closest", "getitem")
    PREFIX = "C16"

    def resolve_t(self, q, covs):
        res = F.resolution_td(self.t)
        kind, i, d = q
        if kind == "abs" or not covs:
            x = F.BASE + timedelta(seconds=i if kind == "abs" else 0)
        elif kind == "far":
            x = (min(c[0] for c in covs) if i < 0 else max(c[1] for c in covs)) \
                + timedelta(days=i)
        else:
            srt = sorted(covs)
            c = srt[i % len(srt)]
            if kind == "t0":
                x = c[0] + d * res
            elif kind == "t1":
                x = c[1] + d * res
            elif kind == "mid":
                x = c[0] + (c[1] - c[0]) / 2
            else:
                j = i % len(srt)
                nxt = srt[j + 1][0] if j + 1 < len(srt) else c[1] + timedelta(hours=5)
                x = c[1] + (nxt - c[1]) * (d / 100.0)
        # name resolution
        us = int(res.total_seconds() * 1e6)
        if us >= 1000000:
            x = x.replace(microsecond=0)
            if us >= 60000000:
                x = x.replace(second=0)
        else:
            x = x.replace(microsecond=(x.microsecond // us) * us)
        return x

    def op(self, i, o):
        kind = o["op"]
        if kind in ("create", "delete", "reset_cache", "set_coverage", "other_fileset"):
            return super().op(i, o)
        w = self.w
        NoFilesError = F._T["NoFilesError"]
        covs = [self.cov(f) for f in self.files]
        t = self.resolve_t(o["q"], covs)
        filters = o["filters"] if not w["single"] else None
        # filters = what the caller means (the model's view); filters_arg = the
        # dict object handed to typhon.  A caller may pass the same object again
        # (one filter definition used in a loop): the answer must then be the
        # one for the values the caller put in - judged by the answer only.
        import copy as _copy
        filters_arg = None
        if filters and o.get("reuse_filters") and getattr(self, "last_filters", None) \
                is not None:
            filters_arg = self.last_filters       # same object as in the previous call
            filters = _copy.deepcopy(self.last_filters_value)
            self.probe("same_filters_object_reused")
        elif filters:
            filters_arg = _copy.deepcopy(filters)
            self.last_filters = filters_arg
            self.last_filters_value = _copy.deepcopy(filters)
        arg = t.strftime("%Y-%m-%d %H:%M:%S.%f") if o["as_str"] else t
        # ---- expected ------------------------------------------------------------
        if w["single"]:
            cands = list(self.files)
        else:
            res = F.typhon_dir_resolution(F.DIRS[self.t["dirs"]])
            if res is None:
                lo, hi = datetime.min, datetime.max
            else:
                try:
                    lo, hi = t - res, t + res
                except OverflowError:
                    return
            cands = self.expected(lo, hi, filters)
            if any(self.excluded(f) for f in self.files
                   if self.cov(f)[0] < hi and self.cov(f)[1] >= lo):
                self.probe("excluded_nearby")
        covering = [f for f in cands if self.cov(f)[0] <= t <= self.cov(f)[1]]

        def dist(f):
            c = self.cov(f)
            return min(abs(c[0] - t), abs(c[1] - t))
        best = min((dist(f) for f in cands), default=None)
        if covering:
            self.probe("t_inside_file")
        elif cands:
            self.probe("t_in_gap")
        if any(t in (c[0], c[1]) for c in covs):
            self.probe("t_on_boundary")
        if covs and (t < min(c[0] for c in covs) or t > max(c[1] for c in covs)):
            self.probe("t_outside_all")
        if not cands:
            self.probe("no_file_expected")
        if len(cands) >= 2:
            self.probe("several_candidates")
        if filters:
            self.probe("with_filters")
            if len(filters) > 1:
                self.probe("filter_two_placeholders")
        if any(self.cov(f)[0] == t for f in self.files):
            self.probe("exact_name_shortcut_possible")
        # ---- the call ------------------------------------------------------------
        self.queries += 1
        if C1.invalid_filter(filters):
            self.probe("invalid_filter_repeated")
            for rep in (1, 2):
                try:
                    got = self.fs.find_closest(arg, filters=filters_arg)
                except Exception:  # noqa: the expected outcome
                    continue
                if got is not None:
                    self.V.append(_viol(
                        "C16/answer-for-invalid-filter",
                        f"call {rep} of find_closest({t}, filters={filters}) returned "
                        f"{F.fi_key(got)} although the filter is no regular expression"))
                    return
            return
        try:
            if kind == "getitem":
                self.probe("getitem")
                key = (arg, filters_arg) if filters else arg
                got = self.fs[key]
                if got is not None:
                    if got[0] != "content-of":
                        self.V.append(_viol("C16/getitem/not-read", f"{got!r}"[:200]))
                        return
                    got = got[1]
            else:
                got = self.fs.find_closest(arg, filters=filters_arg)
                if got is not None:
                    got = F.fi_key(got)
            raised = None
        except NoFilesError as e:
            got, raised = None, e
        except ValueError as e:
            if w["single"] and not self.files:
                return
            self.V.append(_viol(f"C16/{kind}/exception/ValueError", f"t={t}: {e}"[:300]))
            return
        except Exception as e:  # noqa
            self.V.append(_viol(f"C16/{kind}/exception/{type(e).__name__}",
                                f"t={t} filters={filters}: {e}"[:300]))
            return
        desc = (f"{kind}({t}, filters={filters}) on template "
                f"{F.template_string(self.t, '')}")
        self.answers.append(digest_of([str(t), sorted(
            os.path.relpath(f["path"], self.be.root) for f in cands)]))
        if len(cands) >= 2 or (not cands and self.files):
            self.nontrivial += 1
        if not cands:
            if got is not None:
                self.V.append(_viol(
                    "C16/far-or-excluded-file-returned",
                    f"{desc}: no eligible file within one directory period, "
                    f"but got {os.path.basename(got)}"))
            return
        if got is None:
            self.V.append(_viol(
                "C16/no-file-reported",
                f"{desc}: expected one of "
                f"{[os.path.basename(f['path']) for f in cands[:4]]}, got "
                f"{'NoFilesError' if raised else None}"))
            return
        f = next((x for x in self.files if x["path"] == got), None)
        if f is None or f not in cands:
            why = "unknown" if f is None else (
                "excluded" if self.excluded(f) else
                "filtered out" if not self.passes(f, filters) else "outside neighbourhood")
            self.V.append(_viol(
                f"C16/ineligible-file-returned/{why.replace(' ', '-')}",
                f"{desc}: got {os.path.basename(got)} ({why}); candidates "
                f"{[os.path.basename(x['path']) for x in cands[:4]]}"))
            return
        c = self.cov(f)
        if covering:
            if not (c[0] <= t <= c[1]):
                self.V.append(_viol(
                    "C16/covering-file-ignored",
                    f"{desc}: got {os.path.basename(got)} [{c[0]}, {c[1]}] "
                    f"although {os.path.basename(covering[0]['path'])} covers t"))
        elif dist(f) != best:
            self.V.append(_viol(
                "C16/not-nearest",
                f"{desc}: got {os.path.basename(got)} at distance {dist(f)}, "
                f"nearest is {best}"))

    def make_fileset(self):
        super().make_fileset()
        self.fs.handler = F._T["FileHandler"](reader=reader)


def run_one(tape, only=None):
    F._T["state"].restore()      # each run models a fresh interpreter
    res = new_result()
    w = gen_workload(tape)
    scratch = fresh_dir(scratch_root(), "c16")
    try:
        run = Run(w, tape, scratch)
        with warnings.catch_warnings():
            warnings.simplefilter("ignore")
            run.run()
    finally:
        os.chdir("/")           # the working directory is process state, too
        shutil.rmtree(scratch, ignore_errors=True)
    seen, uniq = set(), []
    for v in run.V:
        v["signature"] = v["signature"].replace("C01/", "C16/setup/")
        if v["signature"] not in seen:
            seen.add(v["signature"])
            uniq.append(v)
    res["violations"] = uniq
    res["probes"] = run.probes
    res["executions"] = max(1, run.queries)
    res["nontrivial"] = run.nontrivial > 0
    res["wdigest"] = digest_of(w)
    res["edigest"] = digest_of(run.answers)
    res["faults"] = {"listing_order_permuted": getattr(run.be.fs, "permuted", 0)} \
        if getattr(run.be.fs, "permuted", 0) else {}
    if run.probes.get("invalid_filter_repeated"):
        res["faults"]["call_failed_on_invalid_filter"] = run.probes["invalid_filter_repeated"]
    res["kinds"] = [f"backend={w['backend']}"]
    res["counters"] = {"queries": run.queries, "state_changes": run.changes}
    res["sample"] = {
        "backend": w["backend"], "template": F.template_string(w["t"], "<root>"),
        "time_coverage": w["t"]["time_coverage"], "single_file": w["single"],
        "files": [os.path.relpath(f["path"], run.be.root) for f in run.files][:8],
        "ops": [{k: v for k, v in o.items() if k != "file"} for o in w["ops"]],
    }
    return res
