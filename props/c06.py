"""C06 - GeoIndex.query returns exactly the points within the radius.

The 'schedule' of this randomised structure is the permutation drawn by
np.random.shuffle inside GeoIndex.__init__.  The simulator owns it: the name
`np` inside typhon.geographical is replaced by a proxy whose random.shuffle
writes a tape-chosen permutation (identity, reverse, a rotation that puts a
chosen build point - e.g. an expected match - on tree position 0, or a seeded
random one).  One run = one build + several queries; oracle = dense distance
matrix computed by the harness (own chord / great-circle formulas).
"""
import math
import warnings

import numpy as np

from sim.runner import new_result
from sim.treefault import TreeFaultPlan, faulty
from sim.seams import patched, import_typhon
from sim import digest_of

PROPERTY_ID = "C06"
LEVEL = "exploration"
RULE = (
    "one case = one seeded run: a tape-drawn set of build points (1-300, rarely "
    "up to 5000; clusters, duplicates, poles, date line, antipodes), metric, "
    "tree class, leaf size, shuffle flag and - the simulator's part - the "
    "permutation returned by the index's internal shuffle, followed by 2-5 "
    "queries whose radii lie between two distinct entries of the harness's "
    "dense distance matrix (never within 1 mm of one) and are spelled as number "
    "or unit strings. Non-trivial = shuffle on with a non-identity permutation "
    "and >= 1 expected pair. Distinct = distinct (inputs, permutation) digests.")
ASSUMPTIONS = [
    "pairs whose distance is within 1e-6 km of the radius are border cases and "
    "never verdict-relevant; radii are generated away from such borders",
    "KDTree is not combined with metric='haversine' (scikit-learn does not "
    "support that pairing)",
    "the point-set and radius space is sampled; the permutation space is "
    "targeted (identity / reverse / match-on-position-0) plus seeded random",
]
COMPONENTS = {
    "real": ["typhon.geographical.GeoIndex (init, _to_metric, query, "
             "to_kilometers)", "typhon.geodesy.geocentric2cart", "typhon.utils."
             "split_units", "sklearn BallTree/KDTree", "numpy"],
    "stub": ["np.random.shuffle as seen by typhon.geographical (permutation "
             "chosen by the tape)"],
}
DEFAULTS = {
    "quick": {"budget_s": 40, "chunk": 40, "per_run_wall": 120, "minimise_s": 60},
    "thorough": {"budget_s": 900, "chunk": 100, "per_run_wall": 120,
                 "minimise_s": 300},
}
REQUIRED_PROBES = ["query_buffers_refilled_in_place", "self_query_same_objects", "other_index_built_in_between", "match_on_tree_position_0", "only_pair_is_0_0", "perm_reverse",
                   "perm_random", "perm_identity", "haversine", "kdtree",
                   "unit_string_radius", "duplicates_in_build", "large_build",
                   "empty_answer"]

_T = {}
SPECIAL = [(90.0, 0.0), (-90.0, 0.0), (0.0, 180.0), (0.0, -180.0), (0.0, 0.0),
           (89.999, 135.0), (45.0, 179.999), (45.0, -179.999), (-45.0, 0.0),
           (0.0, 90.0), (0.0, -90.0), (10.0, 20.0), (-10.0, -160.0)]


def setup():
    import_typhon()
    import typhon.geographical as gmod
    import typhon.constants as cst
    _T.update(gmod=gmod, GeoIndex=gmod.GeoIndex, R=float(cst.earth_radius) / 1000.0)
    from sim.seams import typhon_state
    _T["state"] = typhon_state()


class NpProxy:
    """Forwards to numpy, except random.shuffle."""

    def __init__(self, chooser):
        self._chooser = chooser
        self.random = _RandomProxy(chooser)

    def __getattr__(self, name):
        return getattr(np, name)


class _RandomProxy:
    """The global numpy random stream as typhon.geographical sees it: the
    first draw gives the permutation chosen for the run, every later draw a
    rotation of it that depends on the stream position; get_state/set_state
    save and restore the position, and every user of the stream - other
    threads included - moves it on."""

    def __init__(self, chooser):
        self._chooser = chooser
        self.state = 0

    def shuffle(self, arr):
        perm = self._chooser(len(arr))
        if self.state and len(arr):
            perm = np.roll(perm, self.state % len(arr))
        self.state += 1
        arr[:] = np.asarray(arr)[perm]

    def get_state(self):
        return ("sim", self.state)

    def set_state(self, st):
        self.state = st[1]

    def __getattr__(self, name):
        return getattr(np.random, name)


def gen_points(tape, n, label):
    pts = []
    while len(pts) < n:
        c = tape.choice(6, label + "k")
        if c == 0:
            pts.append(SPECIAL[tape.choice(len(SPECIAL), label + "s")])
        elif c == 1 and pts:
            pts.append(pts[tape.choice(len(pts), label + "dup")])      # duplicate
        elif c == 2 and pts:
            la, lo = pts[tape.choice(len(pts), label + "near")]
            d = [1e-5, 1e-3, 0.02, 0.3, 3.0][tape.choice(5, label + "nd")]
            la2 = max(-90.0, min(90.0, la + d * (tape.choice(3, label + "sg") - 1)))
            lo2 = lo + d * (tape.choice(3, label + "sg2") - 1)
            lo2 = (lo2 + 180.0) % 360.0 - 180.0
            pts.append((la2, lo2))
        elif c == 3 and pts:
            la, lo = pts[tape.choice(len(pts), label + "anti")]        # antipode
            pts.append((-la, (lo + 360.0) % 360.0 - 180.0))
        else:
            pts.append((tape.choice(18001, label + "la") / 100.0 - 90.0,
                        tape.choice(36000, label + "lo") / 100.0 - 180.0))
    return pts


def gen_workload(tape):
    w = {}
    big = tape.flag("big", 1, 40)
    n = 300 + tape.choice(4701, "nbig") if big else tape.count(1, 300, "n", (9, 10))
    if not big and tape.flag("special_n", 1, 12):
        # sizes around powers of two and their multiples
        n = tape.pick([255, 256, 257, 258, 511, 512, 513, 514, 771, 1024, 1028, 127, 129],
                      "nspecial")
        big = n > 300
    w["build"] = gen_points(tape, n, "b") if not big else None
    # successive queries may re-fill one pair of coordinate arrays in place
    w["reuse_query_buffers"] = tape.flag("reuse_qbuf", 1, 3)
    w["big_n"] = n if big else None
    w["big_seed"] = tape.choice(10 ** 6, "bigseed") if big else None
    w["metric"] = tape.pick([None, "minkowski", "haversine"], "metric")
    w["tree"] = tape.pick([None, "Ball", "KD"], "tree")
    if w["metric"] == "haversine" and w["tree"] == "KD":
        w["tree"] = "Ball"
    w["leaf"] = tape.pick([None, 1, 2, 40, 7], "leaf")
    w["shuffle"] = not tape.flag("noshuffle", 1, 6)
    # history: other indexes (same or other size) are built between building
    # this one and querying it - they must not disturb it
    w["other_indexes"] = tape.pick([0, 0, 1, 2], "others")
    w["perm"] = tape.pick(["random", "match0", "reverse", "identity", "match0"], "perm")
    w["perm_seed"] = tape.choice(10 ** 6, "permseed")
    qs = []
    for _ in range(tape.count(2, 5, "nq", (1, 2))):
        m = tape.count(1, 30, "m", (4, 5))
        if w["reuse_query_buffers"] and qs:
            m = qs[0]["n"]             # same length: the buffers can be refilled
        q = {"n": m, "seed_label": None}
        # query points: often near build points so that matches exist
        q["pts_spec"] = [(tape.choice(3, "qk"), tape.choice(10 ** 6, "qa"),
                          tape.choice(5, "qd")) for _ in range(m)]
        q["rsel"] = tape.choice(10 ** 6, "rsel")
        q["rmode"] = tape.pick(["between", "between", "tiny", "huge", "between"], "rmode")
        q["unit"] = tape.pick(["number", "km", "m", "miles", "number"], "unit")
        q["spelling"] = tape.choice(3, "spelling")
        q["no_distance"] = tape.flag("no_distance", 1, 5)
        q["big_m"] = tape.pick([1025, 2500, 3001, 4102, 2048], "big_m") \
            if tape.flag("big_query", 1, 25) else None
        # query the index with the very array objects it was built from
        q["self_query"] = tape.flag("self_query", 1, 6)
        qs.append(q)
    w["queries"] = qs
    # allocation failure at the tree seam: in the k-th tree construction or the
    # k-th radius query of the run (None = no fault)
    w["alloc_fault"] = None
    if tape.flag("alloc_fault", 1, 8):
        w["alloc_fault"] = [tape.pick(["build", "query", "query"], "af_kind"),
                            1 + tape.choice(3, "af_k")]
    # the index travels: queried through a pickle round trip (as a process
    # pool would ship it) or a deep copy instead of the original object
    w["travel"] = tape.pick([None, None, None, "pickle", "deepcopy"], "travel")
    w["other_metric_first"] = tape.flag("other_metric_first", 1, 4)
    # two caller threads share the index: each takes every second query
    w["two_callers"] = tape.flag("two_callers", 1, 6)
    w["line_stride"] = 5 + tape.choice(30, "linestride") if w["two_callers"] else 0
    w["store_stride"] = 1 + tape.choice(3, "storestride") if w["two_callers"] else 0
    return w


def chord_matrix(b, q, R):
    def xyz(p):
        la = np.radians(p[:, 0])
        lo = np.radians(p[:, 1])
        return np.stack([R * np.cos(la) * np.cos(lo), R * np.cos(la) * np.sin(lo),
                         R * np.sin(la)], axis=1)
    B, Q = xyz(b), xyz(q)
    d = B[:, None, :] - Q[None, :, :]
    return np.sqrt((d * d).sum(axis=2))


def arc_matrix(b, q, R):
    la1 = np.radians(b[:, 0])[:, None]
    lo1 = np.radians(b[:, 1])[:, None]
    la2 = np.radians(q[:, 0])[None, :]
    lo2 = np.radians(q[:, 1])[None, :]
    a = np.sin((la2 - la1) / 2) ** 2 + np.cos(la1) * np.cos(la2) * \
        np.sin((lo2 - lo1) / 2) ** 2
    return 2 * R * np.arcsin(np.minimum(1.0, np.sqrt(a)))


def _pool_seams(gmod):
    """concurrent.futures as typhon.geographical (and anything it calls) sees
    it: pools belong to the simulator."""
    import concurrent.futures as _cf
    from sim.executors import (SimThreadPool, SimProcessPool, sim_as_completed, sim_wait)
    seams = []
    for mod in (gmod, _cf):
        for name, fake in (("ThreadPoolExecutor", SimThreadPool),
                           ("ProcessPoolExecutor", SimProcessPool),
                           ("as_completed", sim_as_completed), ("wait", sim_wait)):
            if mod is _cf or hasattr(mod, name):
                seams.append((mod, name, fake))
    return seams


def _run_sim(sim, gmod, main):
    from sim.executors import SimPoolBase
    SimPoolBase.sim, SimPoolBase.registry = sim, []
    try:
        with patched(*_pool_seams(gmod)):
            sim.run(main)
    finally:
        SimPoolBase.sim = None
        SimPoolBase.registry = None


def _run_in_kernel(tape, gmod, do_query, qi, V):
    from sim.kernel import Sim, Deadlock, StepCap, make_policy
    sim = Sim(tape, make_policy(tape, allow=("random", "sticky")), step_cap=20000)
    try:
        _run_sim(sim, gmod, lambda: do_query(qi))
    except (Deadlock, StepCap) as e:
        V.append(_viol("C06/query/no-termination", str(e)[:200]))
    return sim.digest()


def _concurrent_build(tape, w, gmod, build_main, build_decoy):
    from sim.kernel import Sim, Deadlock, StepCap
    from sim.linepreempt import LinePreempt, periodic_points
    sim = Sim(tape, {"kind": "random", "bias": 1 + tape.choice(3, "bbias")}, step_cap=4000)
    stride = 2 + w["line_stride"] % 5
    sim.line_preempt = LinePreempt(
        sim, [gmod], periodic_points(1 + w["line_stride"] % 3, stride, 300),
        only="caller", store_points=periodic_points(1, w["store_stride"], 300))
    box = {}

    def c0():
        sim.yield_("build0")
        box["index"] = build_main()

    def c1():
        sim.yield_("build1")
        build_decoy()

    def main():
        a = sim.spawn("caller0", c0)
        b = sim.spawn("caller1", c1)
        sim.block_until(lambda: a.done and b.done, "join")
        for t in (a, b):
            if t.exc is not None:
                raise t.exc

    try:
        _run_sim(sim, gmod, main)
    except (Deadlock, StepCap):
        pass
    return box.get("index"), sim.digest()


def _run_two_callers(tape, w, gmod, do_query, nq):
    """Two simulated caller threads share the index and take every second
    query each; the kernel decides who runs, with line pre-emption inside
    typhon.geographical (loop-insensitive and store-biased points)."""
    from sim.kernel import Sim, Deadlock, StepCap
    from sim.linepreempt import LinePreempt, periodic_points
    sim = Sim(tape, {"kind": "random", "bias": 1 + tape.choice(4, "bias")}, step_cap=4000)
    sim.line_preempt = LinePreempt(
        sim, [gmod], periodic_points(1 + w["line_stride"] % 7, w["line_stride"], 200),
        only="caller",
        store_points=periodic_points(1, w["store_stride"], 200))
    out = {"violations": [], "digest": None, "fired": 0}

    def caller(k):
        for qi in range(k, nq, 2):
            sim.yield_(f"caller{k}.q{qi}")
            do_query(qi)

    def main():
        a = sim.spawn("caller0", caller, 0)
        b = sim.spawn("caller1", caller, 1)
        sim.block_until(lambda: a.done and b.done, "join")
        for t in (a, b):
            if t.exc is not None:
                raise t.exc

    try:
        _run_sim(sim, gmod, main)
    except (Deadlock, StepCap) as e:
        out["violations"].append(_viol("C06/two-callers/no-termination", str(e)[:200]))
    out["digest"] = sim.digest()
    out["fired"] = sim.line_preempt.fired
    return out


def _viol(sig, msg, extra=None):
    return {"signature": sig, "message": msg, "extra": extra}


def run_one(tape, only=None):
    _T["state"].restore()      # each run models a fresh interpreter
    res = new_result()
    w = gen_workload(tape)
    R = _T["R"]
    gmod, GeoIndex = _T["gmod"], _T["GeoIndex"]
    if w["build"] is None:
        rs = np.random.RandomState(w["big_seed"])
        build = np.column_stack([rs.uniform(-90, 90, w["big_n"]),
                                 rs.uniform(-180, 180, w["big_n"])])
        build[: len(SPECIAL)] = SPECIAL
    else:
        build = np.array(w["build"], dtype=float)
    n = len(build)
    probes = {}
    V = []

    def probe(k):
        probes[k] = probes.get(k, 0) + 1
    if n > 300:
        probe("large_build")
    if len({tuple(p) for p in build.tolist()}) < n:
        probe("duplicates_in_build")
    metric = w["metric"] or "minkowski"
    if metric == "haversine":
        probe("haversine")
    if w["tree"] == "KD":
        probe("kdtree")
    # resolve the queries first: the 'match0' permutation needs an expected match
    queries = []
    for q in w["queries"]:
        pts = []
        for k, a, d in q["pts_spec"]:
            if k == 0:
                la, lo = build[a % n]
                off = [0.0, 1e-4, 0.01, 0.5, 5.0][d]
                la = max(-90.0, min(90.0, la + off))
                pts.append((la, lo))
            elif k == 1:
                pts.append(SPECIAL[a % len(SPECIAL)])
            else:
                pts.append(((a % 18001) / 100.0 - 90.0, ((a // 7) % 36000) / 100.0 - 180.0))
        qp = np.array(pts, dtype=float)
        if q["self_query"] and n <= 300:
            qp = build
        if q.get("big_m") and n <= 300:
            # several thousand query points (near build points): a query large
            # enough for any chunked or parallel search inside the index
            rs_q = np.random.RandomState(q["rsel"])
            pick = rs_q.randint(0, n, q["big_m"])
            qp = build[pick] + rs_q.uniform(-0.02, 0.02, (q["big_m"], 2))
            qp[:, 0] = np.clip(qp[:, 0], -90.0, 90.0)
            qp[:, 1] = ((qp[:, 1] + 180.0) % 360.0) - 180.0
            probe("query_with_thousands_of_points")
        D = arc_matrix(build, qp, R) if metric == "haversine" else chord_matrix(build, qp, R)
        vals = np.unique(np.round(D.ravel(), 9))
        if q["rmode"] == "tiny":
            r = 1e-4
        elif q["rmode"] == "huge":
            # the property's quantifier ends at half the circumference (and
            # scikit-learn's haversine pruning is not monotone beyond pi)
            r = 0.995 * math.pi * R if metric == "haversine" else 13000.0
        else:
            i = q["rsel"] % len(vals)
            lo_v = vals[i]
            hi_v = vals[i + 1] if i + 1 < len(vals) else vals[i] + 10.0
            r = (lo_v + hi_v) / 2.0
            if hi_v - lo_v < 1e-4:          # too tight: step out of the cluster
                r = lo_v + 5e-5
        if r <= 0:
            r = 1e-4
        if q.get("big_m") and n <= 300 and int((D <= r).sum()) > 20000:
            r = 1e-4                 # keep the pair set of a big query small
        if metric == "haversine":
            r = min(r, 0.9999 * math.pi * R)    # quantifier: up to half the circumference
        border = np.abs(D - r) < 1e-6
        if metric == "haversine":
            # exact antipodes are numerically singular for the haversine
            # formula (arcsin argument rounds above 1): not verdict-relevant
            border |= D > math.pi * R - 1e-3
        queries.append((qp, D, r, border, q))
    first_matches = np.argwhere(queries[0][1] <= queries[0][2]) if queries else []
    target0 = int(first_matches[w["perm_seed"] % len(first_matches)][0]) \
        if len(first_matches) else 0
    used_perm = {}

    def chooser(k):
        kind = w["perm"]
        if kind == "identity":
            p = np.arange(k)
        elif kind == "reverse":
            p = np.arange(k)[::-1].copy()
        elif kind == "match0":
            t0 = target0 % k
            p = np.roll(np.arange(k), -t0)       # p[0] == t0
        else:
            p = np.random.RandomState(w["perm_seed"]).permutation(k)
        used_perm["p"] = p
        return p

    proxy = NpProxy(chooser)
    plan = TreeFaultPlan()
    if w["alloc_fault"]:
        if w["alloc_fault"][0] == "build":
            plan.build_fail_at = w["alloc_fault"][1]
        else:
            plan.query_fail_at = w["alloc_fault"][1]
    kw = {}
    if w["leaf"] is not None:
        kw["leaf_size"] = w["leaf"]
    answers = []
    qbufs = {}
    state = {"nontrivial": False}
    sched = None
    with patched((gmod, "np", proxy),
                 (gmod, "BallTree", faulty(gmod.BallTree, plan)),
                 (gmod, "KDTree", faulty(gmod.KDTree, plan))), warnings.catch_warnings():
        warnings.simplefilter("ignore")
        index = None
        blat, blon = build[:, 0].copy(), build[:, 1].copy()

        def build_main():
            for attempt in (1, 2):
                try:
                    return GeoIndex(blat, blon, metric=w["metric"],
                                    tree_class=w["tree"], shuffle=w["shuffle"], **kw)
                except Exception as e:  # noqa
                    if plan.take_fired():
                        probe("build_failed_and_retried")      # allowed: it may fail
                        continue
                    V.append(_viol(f"C06/build/exception/{type(e).__name__}",
                                   f"{e}"[:300]))
                    return None
            return None

        def build_decoy():
            rs_ = np.random.RandomState(w["perm_seed"] + 5)
            m_ = max(2, n // 2 + 1)
            try:
                GeoIndex(rs_.uniform(-80, 80, m_), rs_.uniform(-170, 170, m_),
                         metric=w["metric"], tree_class=w["tree"],
                         shuffle=w["shuffle"], **kw)
            except Exception:  # noqa: not the object under test
                plan.take_fired()

        if w.get("other_metric_first"):
            # an index with the *other* metric was built earlier in the process
            probe("index_with_the_other_metric_built_first")
            try:
                GeoIndex(np.array([10.0, 11.0, 12.5]), np.array([20.0, 21.0, 19.0]),
                         metric="haversine" if metric == "minkowski" else "minkowski")
            except Exception:  # noqa: not the object under test
                plan.take_fired()
            used_perm.clear()
        if w["two_callers"] and w["shuffle"] and not w["alloc_fault"]:
            # another thread builds an index of its own at the same time: both
            # draw from the one global random stream
            probe("two_threads_build_concurrently")
            index, bdig = _concurrent_build(tape, w, gmod, build_main, build_decoy)
            sched = bdig
        else:
            index = build_main()
        if index is not None:
            perm = np.array(index.shuffler) if getattr(index, "shuffler", None) is not None \
                else used_perm.get("p")
            for k in range(w["other_indexes"]):
                # same number of points (k == 0) or one more, other positions
                m_ = n + k
                rs = np.random.RandomState(w["perm_seed"] + 17 + k)
                saved = dict(used_perm)
                try:
                    GeoIndex(rs.uniform(-80, 80, m_), rs.uniform(-170, 170, m_),
                             metric=w["metric"], tree_class=w["tree"],
                             shuffle=w["shuffle"], **kw)
                except Exception:  # noqa: not the object under test
                    pass
                used_perm.clear()
                used_perm.update(saved)
                probe("other_index_built_in_between")
            if w["travel"]:
                import copy as _copy
                import pickle as _pickle
                saved = dict(used_perm)
                for attempt in (1, 2):
                    try:
                        index = _pickle.loads(_pickle.dumps(index)) \
                            if w["travel"] == "pickle" else _copy.deepcopy(index)
                        probe("index_" + w["travel"])
                        break
                    except Exception as e:  # noqa
                        if plan.take_fired():
                            continue      # an injected allocation failure: try again
                        V.append(_viol(f"C06/{w['travel']}/exception/{type(e).__name__}",
                                       f"{e}"[:300]))
                        break
                used_perm.clear()
                used_perm.update(saved)
            if w["shuffle"]:
                probe("perm_" + ("random" if w["perm"] == "random" else
                                 "reverse" if w["perm"] == "reverse" else
                                 "identity" if w["perm"] == "identity" else "match0"))
            def do_query(qi):
                qp, D, r, border, q = queries[qi]
                exp = {(int(i), int(j)) for i, j in np.argwhere((D <= r) & ~border)}
                maybe = {(int(i), int(j)) for i, j in np.argwhere(border)}
                rf = float(r)
                spell = {"number": rf, "km": f"{rf!r} km", "m": f"{rf * 1000.0!r} m",
                         "miles": f"{rf / 1.609344!r} miles"}[q["unit"]]
                if q["unit"] == "number" and q.get("spelling") and rf == float(int(rf)) \
                        and 0 < rf < 32000:
                    # a whole number of kilometres as a numpy scalar of a small type
                    spell = [np.int16, np.uint16, np.float32][q["spelling"] % 3](rf)
                    probe("radius_is_a_small_numpy_scalar")
                if isinstance(spell, str) and q.get("spelling"):
                    # other legal spellings of the same number
                    num, unit = spell.split(" ")
                    if q["spelling"] == 1 and num.startswith("0."):
                        num = num[1:]                      # '.5 km'
                        probe("radius_without_leading_zero")
                    elif q["spelling"] == 2:
                        spell = num + unit                 # '0.5km'
                    if q["spelling"] != 2:
                        spell = num + " " + unit
                if q["unit"] != "number":
                    probe("unit_string_radius")
                try:
                    if qp is build:
                        probe("self_query_same_objects")
                        pairs, dist = index.query(blat, blon, r=spell)
                    elif w["reuse_query_buffers"]:
                        # (each caller thread has buffers of its own)
                        key = (qi % 2 if w["two_callers"] else 0, len(qp))
                        if key not in qbufs:
                            qbufs[key] = (np.empty(key[1]), np.empty(key[1]))
                        else:
                            probe("query_buffers_refilled_in_place")
                        qbufs[key][0][:] = qp[:, 0]
                        qbufs[key][1][:] = qp[:, 1]
                        pairs, dist = index.query(qbufs[key][0], qbufs[key][1], r=spell)
                    else:
                        if q.get("no_distance"):
                            probe("query_without_distances")
                            pairs = index.query(qp[:, 0].copy(), qp[:, 1].copy(), r=spell,
                                                return_distance=False)
                            dist = None
                        else:
                            pairs, dist = index.query(qp[:, 0].copy(), qp[:, 1].copy(),
                                                      r=spell)
                except Exception as e:  # noqa
                    if plan.take_fired():
                        probe("query_failed_under_fault")   # allowed: it may fail
                        return
                    V.append(_viol(f"C06/query/exception/{type(e).__name__}",
                                   f"query {qi} r={spell}: {e}"[:300]))
                    return
                try:
                    pairs = np.asarray(pairs)
                    if pairs.size == 0:
                        got, gl = set(), []
                        probe("empty_answer")
                    else:
                        gl = [(int(a), int(b)) for a, b in zip(pairs[0], pairs[1])]
                        got = set(gl)
                except Exception as e:  # noqa: not a 2 x N index array
                    V.append(_viol("C06/query/malformed-result",
                                   f"query {qi} r={spell}: {type(e).__name__}: {e}"[:300]))
                    return
                answers.append(digest_of(sorted(exp)))
                if exp == {(0, 0)}:
                    probe("only_pair_is_0_0")
                if w["shuffle"] and perm is not None and exp and \
                        any(perm[0] == i for i, _ in exp):
                    probe("match_on_tree_position_0")
                if w["shuffle"] and exp and perm is not None and \
                        not np.array_equal(perm, np.arange(len(perm))):
                    state["nontrivial"] = True
                desc = (f"query {qi}: n={n}, m={len(qp)}, r={spell}, metric={metric}, "
                        f"tree={w['tree']}, shuffle={w['shuffle']}/{w['perm']}")
                if len(gl) != len(got):
                    V.append(_viol("C06/duplicate-pairs", f"{desc}: "
                                   f"{len(gl) - len(got)} pair(s) reported twice"))
                missing = exp - got
                extra = got - exp - maybe
                if missing:
                    V.append(_viol(
                        "C06/missing-pairs",
                        f"{desc}: {len(missing)} of {len(exp)} pair(s) missing, e.g. "
                        f"{sorted(missing)[:4]} (got {sorted(got)[:4]})"))
                if extra:
                    V.append(_viol(
                        "C06/spurious-pairs",
                        f"{desc}: {len(extra)} pair(s) outside the radius or with "
                        f"wrong indices, e.g. {sorted(extra)[:4]}"))
                if not missing and not extra and got and dist is not None:
                    dist = np.asarray(dist, dtype=float)
                    if dist.shape != (len(gl),):
                        V.append(_viol("C06/distance-shape",
                                       f"{desc}: distances {dist.shape} for {len(gl)} pairs"))
                    else:
                        want = np.array([D[i, j] for i, j in gl])
                        bad = np.abs(dist - want) > 1e-6 + 1e-9 * want
                        if bad.any():
                            k = int(np.argmax(bad))
                            V.append(_viol(
                                "C06/distance-value",
                                f"{desc}: pair {gl[k]} distance {dist[k]} km, "
                                f"harness computes {want[k]} km"))

            if not w["two_callers"]:
                for qi in range(len(queries)):
                    if len(queries[qi][0]) > 1000:
                        # inside the kernel with the pool seams: a search that
                        # is spread over a thread pool is scheduled by the tape
                        sched = [sched, _run_in_kernel(tape, gmod, do_query, qi, V)]
                    else:
                        do_query(qi)
            else:
                probe("two_caller_threads")
                two = _run_two_callers(tape, w, gmod, do_query, len(queries))
                V.extend(two["violations"])
                sched = [sched, two["digest"]]
                lp_fired = two["fired"]
                if lp_fired:
                    probe("line_preemptions_in_callers")
    seen, uniq = set(), []
    for v in V:
        if v["signature"] not in seen:
            seen.add(v["signature"])
            uniq.append(v)
    res["violations"] = uniq
    res["probes"] = probes
    res["executions"] = max(1, len(answers))
    res["nontrivial"] = state["nontrivial"]
    res["wdigest"] = digest_of({k: v for k, v in w.items() if k not in ("perm", "perm_seed")})
    res["edigest"] = digest_of([w["perm"], w["perm_seed"], target0, sorted(answers), sched])
    res["faults"] = {"permutation_" + w["perm"]: 1} if w["shuffle"] else {}
    res["faults"].update(plan.fired)
    res["kinds"] = [f"metric={metric}", f"tree={w['tree']}", f"perm={w['perm'] if w['shuffle'] else 'off'}"]
    res["counters"] = {"build_points": n, "queries": len(queries)}
    res["sample"] = {
        "build_points": n, "first_build_points": build[:4].tolist(),
        "metric": metric, "tree": w["tree"], "leaf": w["leaf"],
        "shuffle": w["shuffle"], "permutation": w["perm"],
        "queries": [{"m": len(qp), "r_km": r, "unit": q["unit"],
                     "expected_pairs": int(((D <= r) & ~border).sum())}
                    for qp, D, r, border, q in queries],
    }
    return res
