"""C12 - compress/decompress round-trip any content and never leave debris.

Simulated system: typhon.files.utils with every I/O name it uses routed through
step-counting, fault-injecting wrappers (open, shutil.copyfileobj, tempfile,
the compressor table) around the real gzip/bz2/lzma/zipfile objects working on
a harness-owned scratch directory (which is also the default temp dir).

One case = one tape-drawn history of compress / decompress blocks.  It is run
fault-free (success-path oracle, steps numbered), then once per (step, fault
kind) with that single fault, and once per caller-body exception position and
per archive corruption.
"""
import bz2
import errno
import gzip
import io
import lzma
import os
import shutil as _real_shutil
import tempfile as _real_tempfile
import zipfile

from sim.runner import new_result, scratch_root
from sim.seams import patched, import_typhon, fresh_dir
from sim.seams import deterministic_tempnames
from sim import digest_of

PROPERTY_ID = "C12"
LEVEL = "fault_enumeration"
RULE = (
    "one evaluation = one execution of a tape-drawn history of 1-3 "
    "compress()/decompress() with-blocks (format gz/bz2/zip/xz by suffix or "
    "fmt=, names with several dots, explicit tmpdir/target, content empty / 1 "
    "byte / around and above the copy chunk / binary / already compressed, "
    "optional pre-existing target): one fault-free execution per history, then "
    "one execution per numbered I/O step and applicable fault kind (EIO, ENOSPC, "
    "short read), per caller-body exception position and per archive corruption "
    "(truncation, byte flip); a failed block does not end the history, later "
    "blocks must still work; the thorough tier adds up to 40 random double "
    "faults per history. Non-trivial = a fault fired inside a block that "
    "uses a real compression format, or a fault-free round trip of non-empty "
    "content. Distinct = distinct (history digest, fault) pairs.")
ASSUMPTIONS = [
    "faults are injected at the I/O calls typhon.files.utils issues itself and "
    "on the file objects it hands to gzip/bz2/lzma/zipfile; reads that zipfile "
    "performs on the *source* file by name are not interceptable",
    "atomicity of the target when the compression step itself fails is not "
    "demanded (the property does not state it); a failing os.unlink/rmtree is "
    "not injected (nobody could clean up then)",
    "file-descriptor leaks are not observed, only files and directories",
]
COMPONENTS = {
    "real": ["typhon.files.utils (compress, compress_as, decompress, "
             "is_compression_format)", "gzip, bz2, lzma, zipfile, tempfile "
             "(directories/files really created)", "scratch directory"],
    "stub": ["open / shutil.copyfileobj / tempfile / compressor-table entries "
             "as seen by typhon.files.utils (fault-injecting wrappers)"],
}
DEFAULTS = {
    "quick": {"budget_s": 40, "chunk": 10, "per_run_wall": 300, "minimise_s": 60},
    "thorough": {"budget_s": 900, "chunk": 40, "per_run_wall": 300,
                 "minimise_s": 300},
}
REQUIRED_PROBES = ["body_exception_compress", "body_exception_decompress",
                   "fault_in_copy_read", "fault_in_copy_write",
                   "corrupt_archive_truncated", "corrupt_archive_flipped",
                   "fault_at_tempfile_creation", "preexisting_target",
                   "content_larger_than_chunk", "short_read",
                   "two_blocks_open_at_once", "target_prefilled_longer",
                   "uncompressed_namesake_next_to_archive"]

_T = {}
FORMATS = ["gz", "bz2", "zip", "xz"]
MAGIC = {"gz": b"\x1f\x8b", "bz2": b"BZh", "zip": b"PK", "xz": b"\xfd7zXZ\x00"}
CHUNK = 16      # the copy-chunk length the wrapper imposes


def setup():
    import_typhon()
    import typhon.files.utils as umod
    _T["umod"] = umod
    from sim.seams import typhon_state
    _T["state"] = typhon_state()


class BodyError(Exception):
    """Raised by the harness inside the caller's with-block."""


class Injected(OSError):
    pass


class InjectedInterrupt(KeyboardInterrupt):
    """Ctrl-C / SIGINT arriving inside an I/O step: an exception, but not an
    Exception."""


# --------------------------------------------------------------- fault plane
class Plane:
    def __init__(self, fault=None):
        self.step = 0
        self.fault = fault           # None | ("io", k, kind) | ("io2", k1, kind1, k2, kind2)
        self.faults = []
        self.fired_n = 0
        self.active = True
        if fault and fault[0] == "io":
            self.faults = [("io", fault[1], fault[2])]
        elif fault and fault[0] == "io2":
            self.faults = [("io", fault[1], fault[2]), ("io", fault[3], fault[4])]
        self.trace = []              # (kind, label) per step
        self.fired = None
        self.block = None            # index of the block being executed

    def point(self, op, label):
        """op in open_r open_w read write close mktemp mkdtemp cctor"""
        if not self.active:
            # a wrapper that outlived its execution (closed by the garbage
            # collector some time later): not part of any numbered history
            return None
        k = self.step
        self.step += 1
        self.trace.append((op, label, self.block))
        f = None
        for cand in self.faults:
            if cand[1] == k:
                f = cand
        if f is not None:
            kind = f[2]
            self.fired_n += 1
            if kind == "SHORT":
                if op == "read":
                    self.fired = (k, op, label, kind)
                    return "short"
                return None
            self.fired = (k, op, label, kind)
            if kind == "INTR":
                raise InjectedInterrupt(f"injected interrupt at step {k} ({op} {label})")
            code = errno.EIO if kind == "EIO" else errno.ENOSPC
            raise Injected(code, f"injected {kind} at step {k} ({op} {label})")
        return None


class FaultFile:
    """Wraps a real (binary) file object or compressor object."""

    def __init__(self, plane, real, label, owns=()):
        self._p, self._r, self._label = plane, real, label
        self._owns = list(owns)     # underlying objects to close with this one

    @property
    def name(self):
        return self._r.name

    def read(self, n=-1):
        r = self._p.point("read", self._label)
        if r == "short" and (n is None or n < 0 or n > 1):
            n = 1
        return self._r.read(n)

    def write(self, data):
        self._p.point("write", self._label)
        return self._r.write(data)

    def close(self):
        try:
            if not getattr(self._r, "closed", False):
                self._p.point("close", self._label)
        finally:
            try:
                self._r.close()
            finally:
                for o in self._owns:
                    try:
                        o.close()
                    except Exception:  # noqa
                        pass

    def __enter__(self):
        return self

    def __exit__(self, *exc):
        self.close()
        return False

    def __getattr__(self, name):
        return getattr(self._r, name)

    def __iter__(self):
        return iter(self._r)


def make_seams(plane):
    def s_open(file, mode="r", *a, **kw):
        op = "open_w" if any(c in mode for c in "wax+") else "open_r"
        plane.point(op, os.path.basename(str(file)))
        return FaultFile(plane, io.open(file, mode, *a, **kw),
                         ("w:" if op == "open_w" else "r:") + os.path.basename(str(file)))

    class Shutil:
        @staticmethod
        def copyfileobj(fsrc, fdst, length=0):
            # same loop as the stdlib, but with a small chunk so that "content
            # larger than the chunk" is cheap to produce
            while True:
                buf = fsrc.read(CHUNK)
                if not buf:
                    break
                fdst.write(buf)

        def __getattr__(self, name):
            return getattr(_real_shutil, name)

    class Tempfile:
        @staticmethod
        def TemporaryDirectory(*a, **kw):
            plane.point("mkdtemp", "TemporaryDirectory")
            return _real_tempfile.TemporaryDirectory(*a, **kw)

        @staticmethod
        def NamedTemporaryFile(*a, **kw):
            plane.point("mktemp", "NamedTemporaryFile")
            real = _real_tempfile.NamedTemporaryFile(*a, **kw)
            return FaultFile(plane, real, "w:tmpfile")

        def __getattr__(self, name):
            return getattr(_real_tempfile, name)

    def factory(cls, fmt):
        def make(filename, mode="r", *a, **kw):
            plane.point("cctor", f"{fmt}:{mode}")
            if kw.get("fileobj") is not None or not isinstance(filename, (str, os.PathLike)):
                return FaultFile(plane, cls(filename, mode, *a, **kw), f"c:{fmt}")
            # the compressor would open the path itself: do it through the seam
            raw_mode = "rb" if mode.startswith("r") else "wb"
            raw = s_open(filename, raw_mode)
            try:
                if fmt == "zip":
                    obj = cls(raw, mode, *a, **kw)
                    return _ZipWrap(plane, obj, raw)
                if fmt == "gz":
                    obj = cls(filename, mode, *a, fileobj=raw, **kw)
                else:
                    obj = cls(raw, mode, *a, **kw)
            except BaseException:
                raw.close()
                raise
            return FaultFile(plane, obj, f"c:{fmt}", owns=[raw])
        return make

    return s_open, Shutil(), Tempfile(), factory


class _ZipWrap:
    def __init__(self, plane, z, raw):
        self._p, self._z, self._raw = plane, z, raw

    def open(self, name, mode="r", *a, **kw):
        return FaultFile(self._p, self._z.open(name, mode, *a, **kw), "c:zipmember")

    def write(self, *a, **kw):
        self._p.point("write", "c:zip")
        return self._z.write(*a, **kw)

    def close(self):
        try:
            self._z.close()
        finally:
            self._raw.close()

    def __enter__(self):
        return self

    def __exit__(self, *exc):
        self.close()
        return False

    def __getattr__(self, name):
        return getattr(self._z, name)


# ------------------------------------------------------------------ workload
NAMES = ["data", "a.b.c", "archive.tar", "x.nc", "weird name", "UPPER.TXT",
         # names that *are* a format key or start with a dot: still no suffix
         "gz", ".xz", "zip", ".bz2", "xz"]
PLAIN_SUFFIX = ["", ".dat", ".txt", ".GZ", ".gzip", ".z"]


def has_suffix(name, fmt):
    """A name carries the compression suffix iff its extension (in the sense of
    os.path.splitext: a leading dot does not start an extension) is .<fmt>."""
    return os.path.splitext(name)[1] == "." + fmt


def gen_content(tape):
    kind = tape.pick(["text", "empty", "one", "chunk-1", "chunk", "chunk+1",
                      "big", "binary", "compressed"], "content")
    if kind == "text":
        return kind, b"typhon test content\n" * (1 + tape.choice(3, "rep"))
    if kind == "empty":
        return kind, b""
    if kind == "one":
        return kind, bytes([tape.choice(256, "byte")])
    if kind == "chunk-1":
        return kind, bytes(range(CHUNK - 1))
    if kind == "chunk":
        return kind, bytes(range(CHUNK))
    if kind == "chunk+1":
        return kind, bytes(range(CHUNK + 1))
    if kind == "big":
        n = CHUNK * (2 + tape.choice(4, "bign")) + tape.choice(CHUNK, "bigr")
        return kind, bytes((i * 37 + 11) % 256 for i in range(n))
    if kind == "binary":
        n = 1 + tape.choice(60, "binn")
        return kind, bytes(tape.choice(256, "b") for _ in range(n))
    return kind, gzip.compress(b"already compressed " * 5, mtime=0)


def gen_workload(tape):
    w = {}
    blocks = []
    nb = tape.count(1, 3, "nblocks", (2, 3))
    archives = []       # names of archives created so far (for decompress)
    for b in range(nb):
        blk = {}
        kind = tape.pick(["compress", "decompress"], "kind") if archives else "compress"
        if kind == "decompress" and tape.flag("fresh_archive", 1, 2):
            kind = "decompress_fresh"
        if tape.flag("pair", 1, 7):
            kind = "decompress_pair"     # two decompress blocks open at once
        blk["kind"] = kind
        if kind == "compress":
            real = not tape.flag("plain", 1, 6)
            base = tape.pick(NAMES, "name")
            ck, content = gen_content(tape)
            blk["content_kind"], blk["content"] = ck, content.hex()
            if real:
                fmt = tape.pick(FORMATS, "fmt")
                via = tape.pick(["suffix", "suffix", "fmt_arg"], "via")
                blk["fmt"] = fmt
                if via == "suffix":
                    blk["name"] = f"{base}.{fmt}"
                    blk["fmt_arg"] = None
                else:
                    blk["name"] = base + tape.pick(["", ".bin", "." + fmt], "fsuf")
                    blk["fmt_arg"] = fmt
            else:
                blk["fmt"] = None
                blk["fmt_arg"] = None
                blk["name"] = base + tape.pick(PLAIN_SUFFIX, "psuf")
            blk["tmpdir"] = tape.flag("tmpdir", 1, 3)
            blk["preexisting"] = tape.flag("preexisting", 1, 3)
            blk["subdir"] = tape.flag("subdir", 1, 4)
            if blk["fmt"] and has_suffix(blk["name"], blk["fmt"]):
                archives.append(b)
        else:
            if kind == "decompress":
                blk["of"] = tape.pick(archives, "of")
            elif kind == "decompress_fresh":
                fmt = tape.pick(FORMATS, "fmt")
                blk["fmt"] = fmt
                blk["name"] = tape.pick(NAMES, "name") + "." + fmt
                ck, content = gen_content(tape)
                blk["content_kind"], blk["content"] = ck, content.hex()
            if kind == "decompress_pair":
                # two archives with the same base name in two directories
                blk["name"] = tape.pick(NAMES, "pname")
                blk["fmt"] = tape.pick(FORMATS, "pfmt1")
                blk["fmt2"] = tape.pick(FORMATS, "pfmt2")
                _, c1 = gen_content(tape)
                _, c2 = gen_content(tape)
                blk["content"], blk["content2"] = c1.hex(), (c2 + b"#2").hex()
                blk["nested"] = tape.flag("nested", 2, 3)
            blk["tmpdir"] = tape.flag("tmpdir", 1, 3)
            blk["target"] = tape.flag("target", 1, 4)
            # a file already sitting at the explicit target (it "will be
            # overwritten"), longer than the decompressed content
            blk["target_prefilled"] = blk["target"] and tape.flag("prefill", 1, 2)
            # an uncompressed file named like the archive without its suffix
            # lies next to the archive (as after `gunzip -k`), newer than it
            blk["namesake"] = kind != "decompress_pair" and tape.flag("namesake", 1, 4)
        # explicit arguments passed by position, as in the docstring examples
        blk["positional"] = tape.flag("positional", 1, 3)
        blk["target_bare"] = tape.flag("target_bare", 1, 3)
        blocks.append(blk)
    w["blocks"] = blocks
    return w


def _std_compress(fmt, member, content):
    """Archive made with the standard library only (independent of typhon)."""
    if fmt == "gz":
        return gzip.compress(content, mtime=0)
    if fmt == "bz2":
        return bz2.compress(content)
    if fmt == "xz":
        return lzma.compress(content)
    bio = io.BytesIO()
    with zipfile.ZipFile(bio, "w", zipfile.ZIP_DEFLATED) as z:
        z.writestr(member, content)
    return bio.getvalue()


def _std_decompress(fmt, path, member):
    if fmt == "gz":
        with gzip.open(path, "rb") as f:
            return f.read()
    if fmt == "bz2":
        with bz2.open(path, "rb") as f:
            return f.read()
    if fmt == "xz":
        with lzma.open(path, "rb") as f:
            return f.read()
    with zipfile.ZipFile(path) as z:
        names = z.namelist()
        if names != [member]:
            raise AssertionError(f"zip members {names}, expected [{member!r}]")
        return z.read(member)


# ------------------------------------------------------------------ execution
def _viol(sig, msg, extra=None):
    return {"signature": sig, "message": msg, "extra": extra}


class Exec:
    def __init__(self, w, root, fault):
        self.w, self.root, self.fault = w, root, fault
        self.plane = Plane(fault if fault and fault[0] in ("io", "io2") else None)
        self.V = []
        self.probes = {}
        self.nontrivial = False
        self.body_points = []        # (block, kind) positions available
        self.archive_blocks = {}     # block index -> (path, fmt, member, content)
        self.allowed = set()         # files that may exist in the data directory
        self.log = []

    def probe(self, k):
        self.probes[k] = self.probes.get(k, 0) + 1

    def run(self):
        umod = _T["umod"]
        data = os.path.join(self.root, "data")
        tmp_default = os.path.join(self.root, "tmp_default")
        tmp_explicit = os.path.join(self.root, "tmp_explicit")
        for d in (data, tmp_default, tmp_explicit):
            os.makedirs(d)
        s_open, s_shutil, s_tempfile, factory = make_seams(self.plane)
        table = dict(umod._known_compressions)
        real_classes = {"gz": gzip.GzipFile, "bz2": bz2.BZ2File,
                        "zip": zipfile.ZipFile, "xz": lzma.LZMAFile}
        for key in list(table):
            fmt = key.lstrip(".")
            table[key] = factory(real_classes.get(fmt, table[key]), fmt)
        saved_tmp = _real_tempfile.tempdir
        _real_tempfile.tempdir = tmp_default
        # typhon leaks file objects on its error paths; they are closed when the
        # reference count drops (deterministic) or by the cyclic collector (not
        # deterministic). Keep the collector out of a numbered execution and
        # retire the fault plane afterwards.
        import gc
        gc_was = gc.isenabled()
        gc.disable()
        try:
            with patched((umod, "open", s_open), (umod, "shutil", s_shutil),
                         (umod, "tempfile", s_tempfile),
                         (umod, "_known_compressions", table)):
                for bi, blk in enumerate(self.w["blocks"]):
                    self.plane.block = bi
                    # a failed block does not end the history: later blocks must
                    # still work (nothing left behind that breaks them)
                    self.block(bi, blk, data, tmp_default, tmp_explicit)
        finally:
            self.plane.active = False
            if gc_was:
                gc.enable()
            _real_tempfile.tempdir = saved_tmp

    # -- one with-block -----------------------------------------------------
    def block(self, bi, blk, data, tmp_default, tmp_explicit):
        umod = _T["umod"]
        kind = blk["kind"]
        fault = self.fault
        body_fault = fault[2] if fault and fault[0] == "body" and fault[1] == bi else None
        tmpdir = tmp_explicit if blk.get("tmpdir") else None
        if kind == "compress":
            d = os.path.join(data, "sub") if blk["subdir"] else data
            os.makedirs(d, exist_ok=True)
            path = os.path.join(d, blk["name"])
            self.allowed.add(path)
            content = bytes.fromhex(blk["content"])
            pre = None
            if blk["preexisting"]:
                pre = b"PRE-EXISTING TARGET " + blk["name"].encode()
                with open(path, "wb") as f:
                    f.write(pre)
                self.probe("preexisting_target")
            elif os.path.exists(path):      # left there by an earlier block
                with open(path, "rb") as f:
                    pre = f.read()
            for other, val in list(self.archive_blocks.items()):
                if val[0] == path:
                    del self.archive_blocks[other]
            fmt = blk["fmt"]
            member = blk["name"][:-(len(fmt) + 1)] if fmt and \
                has_suffix(blk["name"], fmt) else blk["name"]
            if len(content) > CHUNK:
                self.probe("content_larger_than_chunk")
            self.body_points.append((bi, 4))
            exc = None
            yielded = None
            fired_before = self.plane.fired
            try:
                with (umod.compress(path, blk["fmt_arg"], tmpdir) if blk.get("positional")
                      else umod.compress(path, fmt=blk["fmt_arg"], tmpdir=tmpdir)) as tfile:
                    yielded = tfile
                    if body_fault == 0:
                        raise BodyError("before any write")
                    if body_fault != 3:       # 3: the writer produces nothing
                        with open(tfile, "wb") as f:
                            f.write(content[:len(content) // 2])
                            if body_fault == 1:
                                raise BodyError("between writes")
                            f.write(content[len(content) // 2:])
                    if body_fault == 2:
                        raise BodyError("after all writes")
            except (BodyError, Injected, InjectedInterrupt, OSError, EOFError, zipfile.BadZipFile,
                    lzma.LZMAError, ValueError) as e:
                exc = e
            io_fault_here = self.plane.fired is not None and self.plane.fired is not fired_before
            self.log.append(f"b{bi} compress {blk['name']} -> {type(exc).__name__}")
            self._check_debris(bi, tmp_default, tmp_explicit, None)
            if body_fault == 3 and fmt:
                # The block was left normally but nothing had been written:
                # there is nothing to compress. The error must reach the caller
                # and the target must be neither created nor changed.
                self.probe("body_wrote_nothing")
                self.nontrivial = True
                if exc is None:
                    self.V.append(_viol(
                        f"C12/compress/nothing-written-accepted/{fmt}",
                        f"block {bi}: the with-body wrote nothing, yet compress "
                        f"returned normally"))
                if pre is None and os.path.exists(path):
                    self.V.append(_viol(
                        f"C12/compress/target-created-from-nothing/{fmt}",
                        f"block {bi}: {blk['name']} exists although there was "
                        f"nothing to compress"))
                if pre is not None:
                    with open(path, "rb") as f:
                        now = f.read()
                    if now != pre:
                        self.V.append(_viol(
                            f"C12/compress/target-destroyed-by-empty-block/{fmt}",
                            f"block {bi}: existing {blk['name']} was modified "
                            f"although there was nothing to compress"))
                return True
            if body_fault == 3:
                return False           # pass-through name: nothing to check
            if body_fault is not None:
                self.probe("body_exception_compress")
                if fmt:
                    self.nontrivial = True
                if not isinstance(exc, BodyError):
                    self.V.append(_viol("C12/compress/body-exception-lost",
                                        f"block {bi}: raised in the with-body, "
                                        f"caller saw {exc!r}"))
                if pre is None and os.path.exists(path) and fmt:
                    self.V.append(_viol(
                        "C12/compress/target-created-after-body-exception",
                        f"block {bi}: {blk['name']} exists although the "
                        f"with-body raised"))
                if pre is not None and fmt:
                    with open(path, "rb") as f:
                        now = f.read()
                    if now != pre:
                        self.V.append(_viol(
                            "C12/compress/target-changed-after-body-exception",
                            f"block {bi}: existing {blk['name']} was modified "
                            f"although the with-body raised"))
                return True
            if io_fault_here:
                if fmt:
                    self.nontrivial = True
                if exc is None:
                    # a tolerated fault (short read): result must be correct
                    self._check_archive(bi, blk, path, fmt, member, content)
                return exc is not None
            if exc is not None:
                self.V.append(_viol(f"C12/compress/unexpected-exception/{fmt}",
                                    f"block {bi}: {type(exc).__name__}: {exc}"))
                return True
            # success path
            if fmt is None:
                if yielded != path:
                    self.V.append(_viol(
                        "C12/compress/passthrough-path",
                        f"block {bi}: name without compression suffix "
                        f"{blk['name']!r} was redirected to {yielded!r}"))
                with open(path, "rb") as f:
                    if f.read() != content:
                        self.V.append(_viol("C12/compress/passthrough-content",
                                            f"block {bi}: content differs"))
                return False
            self._check_archive(bi, blk, path, fmt, member, content)
            if content:
                self.nontrivial = True
            return False
        # ---------------------------------------------------------- decompress
        if kind == "decompress_pair":
            return self.block_pair(bi, blk, data, tmp_default, tmp_explicit, tmpdir,
                                   body_fault)
        if kind == "decompress":
            if blk["of"] not in self.archive_blocks:
                return False
            path, fmt, member, content = self.archive_blocks[blk["of"]]
        else:
            fmt = blk["fmt"]
            path = os.path.join(data, f"fresh{bi}_" + blk["name"])
            member = os.path.basename(path)[:-(len(fmt) + 1)]
            content = bytes.fromhex(blk["content"])
            raw = _std_compress(fmt, member, content)
            with open(path, "wb") as f:
                f.write(raw)
            self.allowed.add(path)
        corrupt = fault[2:] if fault and fault[0] == "corrupt" and fault[1] == bi else None
        pristine = None
        if corrupt is not None:
            with open(path, "rb") as f:
                raw = f.read()
            pristine = raw
            how, arg = corrupt
            if how == "truncate":
                raw = raw[:arg % max(1, len(raw))]
                self.probe("corrupt_archive_truncated")
            else:
                pos = arg % max(1, len(raw))
                raw = raw[:pos] + bytes([raw[pos] ^ 0x5A]) + raw[pos + 1:] if raw else raw
                self.probe("corrupt_archive_flipped")
            with open(path, "wb") as f:
                f.write(raw)
            self.nontrivial = True
        target = os.path.join(data, f"target{bi}.out") if blk.get("target") else None
        if target and blk.get("target_prefilled"):
            with open(target, "wb") as f:
                f.write(b"OLD CONTENT OF THE TARGET FILE " * 40)
            self.probe("target_prefilled_longer")
        namesake, namesake_made, namesake_bytes = None, False, None
        if blk.get("namesake"):
            nb = os.path.splitext(path)[0]
            if nb != path and not os.path.isdir(nb):
                namesake = nb
                if not os.path.exists(nb):
                    with open(nb, "wb") as f:
                        f.write(b"UNCOMPRESSED NAMESAKE, NOT THE ARCHIVED BYTES ")
                    namesake_made = True
                with open(nb, "rb") as f:
                    namesake_bytes = f.read()
                self.probe("uncompressed_namesake_next_to_archive")
        self.body_points.append((bi, 2))
        exc = None
        got = None
        copy_path = None
        fired_before = self.plane.fired
        # the explicit target may be a bare file name in the working directory
        t_arg, cwd0 = target, None
        if target and blk.get("target_bare"):
            cwd0 = os.getcwd()
            os.chdir(os.path.dirname(target))
            t_arg = os.path.basename(target)
            self.probe("target_is_a_bare_file_name")
        try:
            with (umod.decompress(path, tmpdir, t_arg) if blk.get("positional")
                  else umod.decompress(path, tmpdir=tmpdir, target=t_arg)) as dfile:
                copy_path = os.path.join(os.getcwd(), dfile) if dfile else dfile
                if body_fault == 0:
                    raise BodyError("before reading")
                with open(dfile, "rb") as f:
                    got = f.read()
                if body_fault == 1:
                    raise BodyError("after reading")
        except (BodyError, Injected, InjectedInterrupt, OSError, EOFError, zipfile.BadZipFile,
                lzma.LZMAError, ValueError, KeyError, Exception) as e:  # noqa
            exc = e
        finally:
            if cwd0 is not None:
                os.chdir(cwd0)
        io_fault_here = self.plane.fired is not None and self.plane.fired is not fired_before
        if pristine is not None:           # later blocks see the intact archive again
            with open(path, "wb") as f:
                f.write(pristine)
        self.log.append(f"b{bi} decompress {os.path.basename(path)} -> {type(exc).__name__}")
        if namesake is not None:
            now = None
            if os.path.isfile(namesake):
                with open(namesake, "rb") as f:
                    now = f.read()
            if copy_path is not None and os.path.abspath(copy_path) == os.path.abspath(namesake):
                self.V.append(_viol(
                    "C12/decompress/namesake-handed-out",
                    f"block {bi}: decompress({os.path.basename(path)!r}) handed out the "
                    f"uncompressed file {os.path.basename(namesake)!r} lying next to the "
                    f"archive instead of a decompressed copy"))
                copy_path = None
            elif now != namesake_bytes:
                self.V.append(_viol(
                    "C12/decompress/namesake-changed",
                    f"block {bi}: the file {os.path.basename(namesake)!r} next to the archive "
                    f"was {'removed' if now is None else 'changed'} by decompress"))
            if namesake_made:
                if os.path.exists(namesake):
                    os.remove(namesake)
            elif now != namesake_bytes:
                with open(namesake, "wb") as f:
                    f.write(namesake_bytes)
        leftover = copy_path or target
        if target and blk.get("target_prefilled") and copy_path is None \
                and os.path.exists(target):
            # decompress never got as far as handing out the copy: if the
            # caller's old file is still there untouched, that is no debris
            with open(target, "rb") as f:
                if f.read() == b"OLD CONTENT OF THE TARGET FILE " * 40:
                    os.remove(target)
                    leftover = None
        self._check_debris(bi, tmp_default, tmp_explicit, leftover)
        if body_fault is not None:
            self.probe("body_exception_decompress")
            self.nontrivial = True
            if not isinstance(exc, BodyError):
                self.V.append(_viol("C12/decompress/body-exception-lost",
                                    f"block {bi}: caller saw {exc!r}"))
            return True
        if corrupt is not None:
            # whether a damaged archive is detected is up to the format; the
            # property only demands that nothing is left behind (checked above)
            return True
        if io_fault_here:
            self.nontrivial = True
            if exc is None and got != content:
                self.V.append(_viol(
                    f"C12/decompress/wrong-data-after-fault/{fmt}",
                    f"block {bi}: fault {self.plane.fired} tolerated but data differ"))
            return exc is not None
        if exc is not None:
            self.V.append(_viol(f"C12/decompress/unexpected-exception/{fmt}",
                                f"block {bi}: {type(exc).__name__}: {exc}"))
            return True
        if got != content:
            self.V.append(_viol(f"C12/roundtrip/{fmt}",
                                f"block {bi}: read back {len(got)} bytes, "
                                f"expected {len(content)}"))
        if content:
            self.nontrivial = True
        return False

    def block_pair(self, bi, blk, data, tmp_default, tmp_explicit, tmpdir, body_fault):
        """Two decompress blocks open at the same time (nested, or interleaved
        by hand) on archives with the same base name in different directories."""
        umod = _T["umod"]
        name = blk["name"]
        specs = []
        for k, (fmt, key) in enumerate(((blk["fmt"], "content"), (blk["fmt2"], "content2"))):
            d = os.path.join(data, f"pair{bi}_{k}")
            os.makedirs(d, exist_ok=True)
            path = os.path.join(d, f"{name}.{fmt}")
            content = bytes.fromhex(blk[key])
            with open(path, "wb") as f:
                f.write(_std_compress(fmt, name, content))
            self.allowed.add(path)
            specs.append((path, fmt, content))
        self.probe("two_blocks_open_at_once")
        self.nontrivial = True
        got = [None, None]
        exc = None
        fired_before = self.plane.fired
        try:
            if blk["nested"]:
                with umod.decompress(specs[0][0], tmpdir=tmpdir) as d0:
                    with umod.decompress(specs[1][0], tmpdir=tmpdir) as d1:
                        with open(d1, "rb") as f:
                            got[1] = f.read()
                    with open(d0, "rb") as f:        # after the inner block is gone
                        got[0] = f.read()
            else:
                import contextlib
                st0, st1 = contextlib.ExitStack(), contextlib.ExitStack()
                try:
                    d0 = st0.enter_context(umod.decompress(specs[0][0], tmpdir=tmpdir))
                    d1 = st1.enter_context(umod.decompress(specs[1][0], tmpdir=tmpdir))
                    with open(d0, "rb") as f:
                        got[0] = f.read()
                    with open(d1, "rb") as f:
                        got[1] = f.read()
                    st0.close()                   # the block opened first leaves first
                    with open(d1, "rb") as f:     # the other copy must still be there
                        again = f.read()
                    if again != got[1]:
                        got[1] = again
                finally:
                    try:
                        st0.close()
                    finally:
                        st1.close()
        except (Exception, InjectedInterrupt) as e:  # noqa
            exc = e
        io_fault_here = self.plane.fired is not None and self.plane.fired is not fired_before
        self.log.append(f"b{bi} pair {name} -> {type(exc).__name__}")
        self._check_debris(bi, tmp_default, tmp_explicit, None)
        if io_fault_here:
            return exc is not None
        if exc is not None:
            self.V.append(_viol("C12/decompress/two-open-blocks/exception",
                                f"block {bi}: {type(exc).__name__}: {exc}"[:300]))
            return True
        for k in (0, 1):
            if got[k] != specs[k][2]:
                self.V.append(_viol(
                    "C12/decompress/two-open-blocks/content",
                    f"block {bi}: archive {k} ({os.path.basename(specs[k][0])}) gave "
                    f"{len(got[k] or b'')} bytes, expected {len(specs[k][2])}"))
                break
        return False

    def _check_archive(self, bi, blk, path, fmt, member, content):
        if not os.path.exists(path):
            self.V.append(_viol(f"C12/compress/no-target/{fmt}",
                                f"block {bi}: {blk['name']} was not created"))
            return
        with open(path, "rb") as f:
            raw = f.read()
        if not raw.startswith(MAGIC[fmt]):
            self.V.append(_viol(
                f"C12/compress/not-an-archive/{fmt}",
                f"block {bi}: {blk['name']} does not start with the {fmt} "
                f"magic bytes (stored {len(raw)} bytes, content {len(content)}"
                f"{', byte-identical pass-through' if raw == content else ''})"))
            return
        try:
            back = _std_decompress(fmt, path, member)
        except Exception as e:  # noqa
            self.V.append(_viol(f"C12/compress/stdlib-cannot-open/{fmt}",
                                f"block {bi}: {type(e).__name__}: {e}"))
            return
        if back != content:
            self.V.append(_viol(f"C12/compress/content/{fmt}",
                                f"block {bi}: archive holds {len(back)} bytes, "
                                f"expected {len(content)}"))
            return
        if has_suffix(blk["name"], fmt):
            # a later block may overwrite the archive of an earlier one
            self.archive_blocks[bi] = (path, fmt, member, content)

    def _check_debris(self, bi, tmp_default, tmp_explicit, copy_path):
        data = os.path.join(self.root, "data")
        for dp, dn, fn in os.walk(data):
            for f in fn:
                p = os.path.join(dp, f)
                if p not in self.allowed and p != copy_path:
                    self.V.append(_viol(
                        "C12/debris/target-directory",
                        f"block {bi}: unexpected file "
                        f"{os.path.relpath(p, data)} next to the target"))
                    os.remove(p)
        for d, label in ((tmp_default, "default temp dir"),
                         (tmp_explicit, "explicit tmpdir")):
            left = os.listdir(d)
            if left:
                self.V.append(_viol(
                    "C12/debris/tmpdir",
                    f"block {bi}: {left[:3]} left in the {label}"))
                for n in left:
                    p = os.path.join(d, n)
                    _real_shutil.rmtree(p) if os.path.isdir(p) else os.remove(p)
        if copy_path is not None and os.path.exists(copy_path):
            self.V.append(_viol(
                "C12/debris/decompressed-copy",
                f"block {bi}: decompressed copy {os.path.basename(copy_path)} "
                f"still exists after the with-block"))
            os.remove(copy_path)


# ------------------------------------------------------------------- the run
def run_one(tape, only=None):
    _T["state"].restore()      # each run models a fresh interpreter
    deterministic_tempnames()
    res = new_result()
    w = gen_workload(tape)
    wd = digest_of(w)
    corrupt_args = [tape.choice(100000, "corrupt_arg") for _ in range(3)]
    violations, probes, faults = [], {}, {}
    logs, distinct, samples = [], [], []
    executions = 0
    last_trace = []

    def execute(fault):
        nonlocal executions
        root = fresh_dir(scratch_root(), "c12")
        try:
            ex = Exec(w, root, fault)
            try:
                ex.run()
            except Exception as e:  # noqa: harness or typhon bug outside a block
                ex.V.append(_viol("C12/exception-outside-a-block",
                                  f"{type(e).__name__}: {e}"))
        finally:
            _real_shutil.rmtree(root, ignore_errors=True)
        executions += 1
        for k, v in ex.probes.items():
            probes[k] = probes.get(k, 0) + v
        for v in ex.V:
            v["extra"] = {"fault": list(fault) if fault else None}
            if fault:
                v["message"] += f" [fault {fault}]"
        violations.extend(ex.V)
        logs.append(f"{fault}:" + digest_of(ex.log))
        last_trace[:] = ex.plane.trace
        if ex.nontrivial:
            distinct.append(f"{wd}:{fault}")
        return ex

    if only is not None:
        f = only.get("fault")
        execute(tuple(f) if f else None)
    else:
        ex0 = execute(None)
        plan = []
        for k, (op, label, blk) in enumerate(ex0.plane.trace):
            kinds = ["EIO"]
            if op in ("write", "close", "open_w", "mktemp", "mkdtemp"):
                kinds.append("ENOSPC")
            if op == "read":
                kinds.append("SHORT")
            if op in ("read", "write", "open_r", "open_w", "cctor") and k % 2 == 0:
                kinds.append("INTR")        # sampled: every second step
            for kind in kinds:
                plan.append(("io", k, kind))
        for bi, npos in ex0.body_points:
            for pos in range(npos):
                plan.append(("body", bi, pos))
        for bi, blk in enumerate(w["blocks"]):
            if blk["kind"].startswith("decompress"):
                for i, how in enumerate(("truncate", "flip", "truncate")):
                    plan.append(("corrupt", bi, how, corrupt_args[i]))
        if os.environ.get("VERIF_TIER") == "thorough" and len(ex0.plane.trace) >= 2:
            import random as _random
            rr = _random.Random(wd)
            io_faults = [f for f in plan if f[0] == "io"]
            for _ in range(min(40, len(io_faults))):
                a, b = sorted(rr.sample(io_faults, 2), key=lambda f: f[1])
                if a[1] != b[1]:
                    plan.append(("io2", a[1], a[2], b[1], b[2]))
        for fault in plan:
            ex = execute(fault)
            if fault[0] == "io2":
                faults["double_fault"] = faults.get("double_fault", 0) + 1
                if ex.plane.fired_n >= 2:
                    probes["both_faults_fired"] = probes.get("both_faults_fired", 0) + 1
                continue
            if fault[0] == "io":
                op, label, _ = ex0.plane.trace[fault[1]]
                if ex.plane.fired is None:
                    # the faulted run diverged before the step (cannot happen
                    # for a single fault) - harness self-check
                    violations.append(_viol(
                        "C12/harness/fault-not-reached", f"{fault}",
                        {"fault": list(fault)}))
                name = {"read": "fault_in_copy_read", "write": "fault_in_copy_write",
                        "close": "fault_at_close", "open_r": "fault_at_open_read",
                        "open_w": "fault_at_open_write", "cctor": "fault_at_compressor_open",
                        "mktemp": "fault_at_tempfile_creation",
                        "mkdtemp": "fault_at_tempfile_creation"}[op]
                faults[name] = faults.get(name, 0) + 1
                faults[fault[2]] = faults.get(fault[2], 0) + 1
                if fault[2] == "SHORT":
                    probes["short_read"] = probes.get("short_read", 0) + 1
            elif fault[0] == "body":
                faults["body_exception"] = faults.get("body_exception", 0) + 1
            else:
                faults["corrupt_archive"] = faults.get("corrupt_archive", 0) + 1
            if len(samples) < 3 and ex.nontrivial:
                samples.append({"fault": list(fault), "log": ex.log})
    for k in ("fault_in_copy_read", "fault_in_copy_write",
              "fault_at_tempfile_creation"):
        if faults.get(k):
            probes[k] = probes.get(k, 0) + faults[k]
    seen, uniq = set(), []
    for v in violations:
        if v["signature"] not in seen:
            seen.add(v["signature"])
            uniq.append(v)
    res["violations"] = uniq
    res["executions"] = executions
    res["faults"] = faults
    res["probes"] = probes
    res["nontrivial"] = bool(distinct)
    res["wdigest"] = wd
    res["edigest"] = digest_of(logs)
    res["trace"] = {"executions": logs[:60], "io_steps_of_fault_free_run": [
        f"{k}:{op}:{label}" for k, (op, label, blk) in enumerate(last_trace[:200])]}
    res["distinct_keys"] = distinct
    res["counters"] = {"blocks": len(w["blocks"])}
    res["kinds"] = [f"fmt={b.get('fmt')}" for b in w["blocks"] if b["kind"] == "compress"]
    res["sample"] = {
        "blocks": [{k: (v if k != "content" else f"{len(v) // 2} bytes")
                    for k, v in b.items()} for b in w["blocks"]],
        "executions": executions, "faulted_examples": samples,
    }
    return res


def extra_coverage(agg):
    return {"exhaustive_per_history": True,
            "note": "every numbered I/O step of each sampled history receives "
                    "every applicable single fault once; histories are sampled"}
