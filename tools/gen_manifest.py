#!/venv/bin/python
"""Writes /verif/MANIFEST.json from the table below and validates it (and any
evidence files present) against the schemas in /root/.vp when available."""
import json
import os
import sys

VERIF = os.path.dirname(os.path.dirname(os.path.abspath(__file__)))
PY = "/venv/bin/python"

CLAIMED = {
    "C10": dict(
        category="exploration", design_ref="DESIGN.md 3/C10",
        technique="deterministic simulation: seeded schedule search over the "
                  "per-file pool tasks with injected read/func faults, checked "
                  "against a sequential reference model",
        text="Seeded search over interleavings of the per-file tasks of "
             "map/imap/collect/icollect/align under fake thread/process pools "
             "(1-8 workers, 1-8 files, bundles, files= vs period selection, "
             "plain and gzip-compressed files, optional output fileset written "
             "by the workers on a scheduling file system, equal base names in "
             "day directories) with failing readers (OSError/KeyError/EOFError) "
             "and functions; every run is compared with the sequential "
             "program, exactly-once read counts, the imap in-flight bound, "
             "exception and warning rules, the files of the output fileset and "
             "an empty temp directory. A quarter of the runs aim at one "
             "tape-drawn completion order of the per-file tasks, explicit "
             "selections come in any order, the consumer may abandon a "
             "generator half-way, thread workers that decompress are pre-empted "
             "inside typhon.files.utils (all orders of "
             "<= 5 tasks in the quick tier, of <= 6 in the thorough tier). A "
             "clean batch is evidence, not proof: schedules are sampled.",
        note="Trusted: the pool model in sim/executors.py (FIFO start, "
             "<= max_workers running, stdlib Executor.map semantics, pickle "
             "boundary for process pools); pre-emption only at pool operations "
             "and inside the harness reader/function; find() is assumed correct "
             "for non-boundary periods (C01)."),
    "C05": dict(
        category="exploration", design_ref="DESIGN.md 3/C05",
        technique="deterministic simulation: seeded schedule + fault search "
                  "over parent/worker processes, result queues and reader "
                  "pools of collocate_filesets, checked against a brute-force "
                  "collocation of all points",
        text="The whole find -> match -> align -> collocate -> queue -> bundle "
             "-> write pipeline runs inside one process on fake "
             "Process/Queue/ThreadPool objects whose every interleaving, queue "
             "delivery delay, reader latency and clock jump comes from one "
             "seeded tape (1-4 processes, all bundle modes, memory/fileset/"
             "search output in pickle or NetCDF4, plain or gzip-compressed "
             "inputs, period cuts incl. exactly on file boundaries, coverage "
             "set after a first search, one unreadable file (failing with an "
             "OSError, a KeyError or an EOFError); rarely a dense file pair "
             "that takes the pre-binned search, with line pre-emption inside "
             "pool workers). The multiset of reported pairs is compared with a "
             "brute force over all points and every result - yielded or read "
             "back - point by point with the input files; liveness = the "
             "generator terminates. Sampled, not enumerated.",
        note="Trusted: the process/queue/pool models in sim/mp.py and "
             "sim/executors.py (bounded queue, feeder delay, child exits only "
             "after its items are in the pipe); start/end always explicit; "
             "border pairs within 1 mm of max_distance are not verdict "
             "relevant; worker kills are not injected."),
    "C15": dict(
        category="fault_enumeration", design_ref="DESIGN.md 3/C15",
        technique="deterministic simulation with crash-point enumeration: every "
                  "numbered disk step of save_cache (incl. torn flushes) is "
                  "crashed once per sampled history, then restart and "
                  "old-or-new / round-trip / corruption oracles",
        text="Seeded cache histories (populate, save, clean exit via atexit, "
             "crash exit, restart, load, find, external corruption) run against "
             "a step-counting disk seam with a modelled user-space write buffer "
             "(size randomised per run); for every save in a history every "
             "disk step is crashed once (torn variants for flushes) and the "
             "restarted FileSet must see byte-for-byte the old or the new "
             "document and load it without warning; the same steps are also "
             "failed with an OSError instead of a crash, and one corruption "
             "kind truncates the document at every byte offset. The handler's "
             "get_info can fail once (EIO) with the search repeated, the "
             "constructor can be interrupted (KeyboardInterrupt) while it reads "
             "the cache file with the at-exit handlers run afterwards, and the "
             "cache file's mtime is a harness-owned coarse clock (two versions "
             "within one tick carry the same stamp); a move between file systems "
             "is modelled as truncate + chunked copy + unlink; the FileSet may "
             "be dropped before the interpreter's at-exit handlers run, or its "
             "cache reset by the user. Crash points are "
             "enumerated exhaustively per history; histories are sampled.",
        note="Crash = process death (completed syscalls persist, rename atomic, "
             "un-flushed user-space buffer lost); power-failure reordering is "
             "not modelled. A missing cache file needs no warning (documented "
             "as allowed); malformed/unreadable files need one."),
    "C12": dict(
        category="fault_enumeration", design_ref="DESIGN.md 3/C12",
        technique="deterministic simulation with I/O fault enumeration: every "
                  "numbered open/read/write/close/tempfile step of "
                  "compress/decompress gets each applicable single fault once "
                  "per sampled history; debris / target / round-trip oracles",
        text="Seeded histories of compress()/decompress() blocks (4 formats "
             "via suffix or fmt=, odd names, tmpdir/target arguments, contents "
             "around the copy chunk) run on the real gzip/bz2/lzma/zipfile "
             "through fault-injecting wrappers; every I/O step is failed once "
             "with EIO/ENOSPC/short read, the caller's body raises at each "
             "position, archives are truncated/bit-flipped. After every "
             "execution the temp directories must be empty, the decompressed "
             "copy gone, and a body exception must neither create nor change "
             "the target; a failed block does not end the history (later blocks "
             "must still work) and the thorough tier adds random double "
             "faults. Every second open/read/write step is also interrupted "
             "with KeyboardInterrupt; explicit arguments are passed by keyword "
             "or by position, explicit targets as absolute paths or as bare "
             "names in the working directory; in a quarter of the decompress "
             "blocks a newer uncompressed file named like the archive without "
             "its suffix lies next to it (it must neither be handed out nor "
             "touched). Fault placement is exhaustive "
             "per history; histories are sampled.",
        note="Faults are injected only at calls typhon.files.utils issues and "
             "on file objects it hands to the compression libraries; target "
             "atomicity when the compression step itself fails is not "
             "demanded; failing unlink/rmtree is not injected; fd leaks are "
             "not observed."),
    "C11": dict(
        category="exploration", design_ref="DESIGN.md 3/C11",
        technique="deterministic simulation: seeded operation histories on a "
                  "scratch store with the per-file move/delete tasks scheduled "
                  "by the simulator, compared step by step with a reference "
                  "model of the store",
        text="Histories of write/overwrite/read/collect/find/move/copy/delete/"
             "dry-run on real FileSets (pickle handler with read_args/"
             "write_args/post_reader, gz/bz2/zip/xz suffixes, CSV, NetCDF4 "
             "with a catalogue of data sets: all dtypes, NaN/inf/NaT, packed "
             "and time encodings, attributes, scalars, strings, pseudo groups, "
             "empty dimensions - compared identical() and dtype-exact) with "
             "target templates that change the directory layout; "
             "after every operation the directory listing, the bytes of "
             "untouched files and the content read back through the owning "
             "fileset are compared with a reference model that names files "
             "with the harness's own formatter; the file system seam adds a "
             "scheduling point before every isdir/makedirs/copy/move and the "
             "handlers contain yield points, so concurrent writers really "
             "overlap. Histories include reads with arguments of their own, "
             "single-file filesets moved/copied/converted and new data stored "
             "for a moved period. One fault kind: the handler's write fails "
             "with ENOSPC for one file of a converting move - every selected "
             "data set must still be readable somewhere. Histories and "
             "schedules are sampled.",
        note="Equality notions per handler are stated in the evidence "
             "assumptions; NetCDF pseudo groups only one level deep on "
             "dimensions of their own (groups inheriting a dimension fail "
             "already in the pinned suite); target templates never collide; "
             "periods avoid file boundaries."),
    "C01": dict(
        category="exploration", design_ref="DESIGN.md 3/C01",
        technique="deterministic simulation: seeded create/delete/query "
                  "histories on a simulated fsspec file system with tape-ordered "
                  "listings, checked against a brute-force filter over the "
                  "harness's own file list",
        text="FileSet(fs=SimFS) - and the same tree on LocalFileSystem and in a "
             "ZipFileSystem - is driven through histories of file creation/"
             "deletion, cache resets, time_coverage changes and find/in/len/"
             "to_dataframe queries (boundary-biased periods, sort, only_path, "
             "bundles, white/black filters, excluded names and periods) over "
             "tape-drawn templates with 0-4 directory levels; every answer is "
             "compared with the property's predicate evaluated on coverages "
             "derived by an independent name model. Histories include two "
             "find() generators consumed alternately, the same filters dict "
             "passed twice and an invalid regular expression as filter value "
             "repeated; a fifth of the runs construct the FileSet for a decoy "
             "layout and re-point it by path assignment, and in a sixth two "
             "simulated caller threads run consecutive queries on the shared "
             "FileSet with line pre-emption inside typhon.files.fileset; another "
             "FileSet object (copy or fresh) is configured and used in the same "
             "process; relative templates are followed by a chdir; the trees "
             "contain left-over entries (.bak/.part) and day directories that "
             "are no dates. The "
             "simulator decides the storage/listing/history/interleaving part; "
             "the alignment space is sampled.",
        note="Files always satisfy the stated preconditions (directory of the "
             "start time, duration <= finest directory period); templates carry "
             "a complete start date; fsspec's glob sorts listings, so listing "
             "order reaches typhon only through that layer."),
    "C16": dict(
        category="exploration", design_ref="DESIGN.md 3/C16",
        technique="deterministic simulation: seeded create/delete/query "
                  "histories on the simulated file system, find_closest and "
                  "fileset[t] checked against the property's covering/nearest "
                  "rule over the harness's own file list",
        text="Same simulated storage and generators as C01; timestamps are "
             "drawn inside files, in gaps, on boundaries and one resolution "
             "step beside them, far outside, in empty directories, with "
             "filters and exclusions; the returned file must be eligible, "
             "must contain t if an eligible file in the +-one-directory-period "
             "neighbourhood does, else be at minimal endpoint distance; "
             "absence must be reported as NoFilesError/None. As in C01: the "
             "same filters dict passed twice, invalid filter expressions "
             "repeated, FileSets re-pointed by path assignment, two caller "
             "threads with line pre-emption, another FileSet object (copy or "
             "fresh) configured in the same process, relative templates with a "
             "later chdir, left-over entries and stray directories in the tree.",
        note="Timestamps at name resolution; neighbourhood = finest temporal "
             "directory level (31 d month, 366 d year / non-temporal directory "
             "part), all files without sub directory; ties may go either way; "
             "timestamp space sampled."),
    "C04": dict(
        category="exploration", design_ref="DESIGN.md 3/C04",
        technique="deterministic simulation: seeded call histories on one "
                  "Collocator object with the index-shuffle permutation drawn "
                  "from the tape, each call checked against a brute-force "
                  "O(n*m) collocation",
        text="One Collocator per run receives 2-7 collocate() calls on "
             "datasets from a small pool (unchanged, swapped, perturbed by "
             "less than np.allclose's tolerance, size ratios across "
             "magnitude_factor; linear and gridded layouts, NaNs, windows, "
             "unit strings, rarely the >10^6-candidate binned path); the "
             "permutation of the spatial index shuffle is a tape choice. Every "
             "call's pairs, intervals and distances are compared with a brute "
             "force, so a dependence on earlier calls shows as a wrong answer "
             "of a later call; histories include spatial-only calls and "
             "datasets updated in place between calls. The calls run as a "
             "task of the kernel with concurrent.futures routed to simulated "
             "pools and, for Collocator(threads >= 2) on the binned path, "
             "line-level pre-emption inside pool workers. Swath dimension names "
             "vary, large swaths reach the pre-binned path, another Collocator "
             "may work on the same data in between, or at the same time from "
             "another thread (line pre-emption in both); time stamps may carry "
             "fractions of a second, max_interval may be a numpy scalar. One "
             "fault kind: the "
             "k-th tree construction or radius query raises MemoryError - that "
             "call may fail, later calls on the same Collocator must be exact. "
             "Histories and inputs are sampled.",
        note="Inputs carry unique dimension labels (the documented contract; "
             "unlabelled dimensions are silently mis-selected by "
             "_prepare_data - recorded as an observation in DESIGN.md); border "
             "pairs within 1e-6 km are not verdict relevant."),
    "C06": dict(
        category="exploration", design_ref="DESIGN.md 3/C06",
        technique="deterministic simulation of a randomised structure: the "
                  "permutation returned by np.random.shuffle inside GeoIndex "
                  "is chosen by the tape (identity / reverse / match on tree "
                  "position 0 / seeded random); answers checked against a "
                  "dense distance matrix",
        text="The 'schedule' of GeoIndex is its internal shuffle; the "
             "simulator owns it through a proxy for numpy inside "
             "typhon.geographical and targets the permutations the property "
             "singles out (an expected match on tree position 0). Build/query "
             "points (duplicates, poles, date line, antipodes), both metrics, "
             "both tree classes, leaf sizes and radius spellings are drawn "
             "from the tape; pairs and distances are compared with the "
             "harness's own chord / great-circle matrix. Allocation failures "
             "are injected at the tree seam (a failing build is retried, a "
             "failing query may raise or must be exact), and in a sixth of the "
             "runs two simulated caller threads share the index with line "
             "pre-emption inside typhon.geographical; in 2 of 5 runs the index "
             "is queried through a pickle round trip or a deep copy; the random "
             "stream is stateful and another thread may build an index at the "
             "same time; queries with thousands of points run inside the kernel "
             "with the pool seams; radii come as numbers, unit strings in "
             "several spellings or small numpy scalars; a fifth of the queries "
             "ask for pairs only (return_distance=False); an index with the "
             "other metric may have been built first. Sampled, not "
             "enumerated.",
        note="Radii lie between distinct distance values (never within 1 mm of "
             "one) and do not exceed half the circumference for haversine; "
             "exact antipodes under haversine are numerically singular in "
             "scikit-learn and treated as border cases; KD+haversine is not a "
             "supported pairing."),
    "C20": dict(
        category="exploration", design_ref="DESIGN.md 3/C20",
        technique="deterministic simulation: seeded request histories against "
                  "a per-run tile cache and a fake network with injected "
                  "download faults; mosaics checked cell by cell against tiles "
                  "whose pixels encode their global row/column",
        text="Histories of elevation/get_tiles/get_native_grids/get_tile "
             "requests with border-biased rectangles (unaligned, thinner than "
             "a cell, across meridional/zonal borders, 4-tile corners, exact "
             "border touches, +-180, northern/southern edge) run (a) with lazy "
             "synthetic tiles whose value names the source pixel, and (b) at "
             "low volume with the real get_tile/download_tile against a fake "
             "urllib that can fail at open or mid-body, on a cold/warm/pre-"
             "populated cache. Oracles: consecutive cell centres, cover with "
             "< 1 cell overhang, every cell from the one right pixel, "
             "download iff miss and at most once, a failed download surfaces "
             "and a retry succeeds, a caller editing a returned tile does not "
             "change later answers. Requests run as a kernel task with "
             "concurrent.futures routed to simulated pools; module/class "
             "state of typhon.topography is reset between runs; the cache "
             "directory is preset or resolved by typhon from a simulated "
             "environment, and in a fifth of the synthetic runs two caller "
             "threads start on a completely warm cache with line pre-emption "
             "inside typhon.topography (no download may happen); tiles a "
             "request needs may be put into the cache directory from outside "
             "right before it; rectangles may have no area; opening a cached "
             "tile can fail once with EMFILE; both environment variables may "
             "be set, and the resolved directory may be forgotten between two "
             "requests (a child process resolving it again). Rectangles and "
             "histories are sampled.",
        note="Overhangs of exactly one cell +-1e-9 deg are border cases (float "
             "image of an edge on a grid line); faults during extractall are "
             "not injected; in configuration (a) get_tile/download_tile are "
             "harness functions as the property's observe_at prescribes."),
}

NOT_APPLICABLE = {
    "C02": "pure function of template, times and fill values: no schedule, clock, storage, fault or history for a simulator to own (DESIGN.md 4)",
    "C03": "IntervalTree is an immutable in-memory structure queried synchronously; match() adds only two find() calls - nothing nondeterministic to put behind a seam (DESIGN.md 4)",
    "C07": "geodesy conversions and distances are pure numerical functions of their arguments (DESIGN.md 4)",
    "C08": "Planck/Rayleigh-Jeans/Snell/Fresnel and unit converters are pure numerical functions (DESIGN.md 4)",
    "C09": "humidity converters, saturation pressures and lapse rate are pure numerical functions (DESIGN.md 4)",
    "C13": "expand/collapse/concat_collocations are pure transformations of in-memory datasets (DESIGN.md 4)",
    "C14": "column integrals and hydrostatic conversions are pure numerical functions (DESIGN.md 4)",
    "C17": "optimal-estimation matrix identities are pure linear algebra (DESIGN.md 4)",
    "C18": "BMCI estimates are a pure function of database, covariance and observation; a database permutation is an input, not a schedule (DESIGN.md 4)",
    "C19": "retrieval scores are pure functions (DESIGN.md 4)",
}

PENDING = {
    # claimed in DESIGN.md, engine not committed yet -> listed as not claimed
}
for pid in ("C01", "C04", "C05", "C06", "C11", "C12", "C15", "C16", "C20"):
    if pid not in CLAIMED:
        PENDING[pid] = ("simulation target according to DESIGN.md, but its "
                        "engine is not committed yet - not claimed until it is")


def build():
    checks = []
    for pid, c in sorted(CLAIMED.items()):
        checks.append({
            "property_id": pid,
            "quick_cmd": f"{PY} check.py {pid} --tier quick",
            "thorough_cmd": f"{PY} check.py {pid} --tier thorough",
            "evidence_file": f"/verif/evidence/{pid}.json",
            "replay_cmd_template": f"{PY} check.py {pid} --replay {{path}}",
            "engine": "typhon-dsim",
            "level_claimed": {"category": c["category"], "text": c["text"],
                              "design_ref": c["design_ref"]},
            "level_note": c["note"],
            "technique": c["technique"],
        })
    na = [{"property_id": p, "reason": r} for p, r in
          sorted({**NOT_APPLICABLE, **PENDING}.items())]
    return {
        "version": 1,
        "setup_cmd": f"{PY} tools/setup_check.py",
        "hooks": {
            "guard": "TYPHON_VERIF",
            "enable": "no guarded code exists in /repo: every seam is an "
                      "existing module-level name or constructor argument that "
                      "the checks patch at run time (DESIGN.md 7); checks import "
                      "typhon from /repo's working tree (VERIF_REPO overrides)",
            "baseline_off_cmd": "cd /repo && /venv/bin/python -m pytest -ra -q "
                                "-p no:cacheprovider --timeout=900 "
                                "--continue-on-collection-errors",
            "source_commits": [],
            "add_only": True,
        },
        "engines": [{
            "name": "typhon-dsim",
            "path": "/verif/sim",
            "serves_properties": sorted(CLAIMED),
            "kind_free_text": "hand-written deterministic simulator: baton-"
                              "passing real threads, one choice tape per run "
                              "(workload, faults, schedule), fakes for pools/"
                              "processes/queues/clock/disk/network, tape "
                              "delta-debugging, replay files",
        }],
        "checks": checks,
        "not_applicable": na,
        "notes": "Exit codes of every check: 0 held (KNOWN-FINDING lines "
                 "possible), 1 VIOLATION line(s) printed with replay file, "
                 "2 harness error (never a VIOLATION line). VERIF_SEED, "
                 "VERIF_TIER, VERIF_BUDGET_S, VERIF_JOBS and VERIF_REPO are "
                 "honoured. known_findings.json lists known/fixed findings.",
    }


def main():
    m = build()
    path = os.path.join(VERIF, "MANIFEST.json")
    with open(path, "w") as f:
        json.dump(m, f, indent=1)
        f.write("\n")
    try:
        import jsonschema
    except ImportError:
        print("jsonschema not importable here; structure not validated")
        return 0
    rc = 0
    sch = "/root/.vp/MANIFEST.schema.json"
    if os.path.exists(sch):
        jsonschema.validate(m, json.load(open(sch)))
        print("MANIFEST.json valid;", len(m["checks"]), "checks,",
              len(m["not_applicable"]), "not applicable")
    props = [json.loads(l)["id"] for l in open(os.path.join(VERIF, "properties.jsonl"))]
    covered = [c["property_id"] for c in m["checks"]] + \
        [n["property_id"] for n in m["not_applicable"]]
    if sorted(props) != sorted(covered):
        print("MISMATCH with properties.jsonl:", sorted(set(props) ^ set(covered)))
        rc = 1
    esch = "/root/.vp/EVIDENCE.schema.json"
    if os.path.exists(esch):
        es = json.load(open(esch))
        for c in m["checks"]:
            ef = c["evidence_file"]
            if os.path.exists(ef):
                try:
                    jsonschema.validate(json.load(open(ef)), es)
                    print("evidence ok:", ef)
                except Exception as e:  # noqa
                    print("evidence INVALID:", ef, str(e)[:300])
                    rc = 1
    return rc


if __name__ == "__main__":
    sys.exit(main())
