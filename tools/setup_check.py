#!/venv/bin/python
"""MANIFEST.setup_cmd: nothing to build (pure Python); verify that the
interpreter can import typhon from /repo with its dependencies and that the
simulation kernel is deterministic on this machine."""
import os
import sys
import warnings

VERIF = os.path.dirname(os.path.dirname(os.path.abspath(__file__)))
sys.path.insert(0, VERIF)
warnings.simplefilter("ignore")


def main():
    from sim.seams import import_typhon
    import_typhon()
    import numpy, xarray, pandas, sklearn, fsspec, netCDF4  # noqa
    from sim.tape import Tape
    from sim.kernel import Sim, make_policy
    from sim.executors import SimPoolBase, SimThreadPool

    def run(seed):
        tape = Tape(seed)
        sim = Sim(tape, make_policy(tape))
        SimPoolBase.sim, SimPoolBase.registry = sim, []

        def work(i):
            for k in range(2):
                sim.yield_(f"w{i}.{k}")
            return i

        def main_():
            with SimThreadPool(max_workers=2) as pool:
                return list(pool.map(work, range(4)))
        r = sim.run(main_)
        assert r == [0, 1, 2, 3]
        return sim.digest()
    for s in range(50):
        assert run(s) == run(s), f"kernel not deterministic for seed {s}"
    os.makedirs(os.path.join(VERIF, "evidence"), exist_ok=True)
    os.makedirs(os.path.join(VERIF, "replays"), exist_ok=True)
    print("setup ok: typhon importable from",
          os.environ.get("VERIF_REPO", "/repo"), "- kernel deterministic")
    return 0


if __name__ == "__main__":
    sys.exit(main())
