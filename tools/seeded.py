#!/venv/bin/python
"""Evaluate and archive a seeded change (produced independently by a sub-agent).

usage: tools/seeded.py eval <PROPERTY> <name> <patch.diff> <demo.py> [notes.md]
                       [--budget S] [--no-tests]

Steps (all on a scratch copy of /repo's working tree under /dev/shm, removed
afterwards; /repo itself is never touched):
  1. demo on the unchanged tree must exit 0, on the changed copy exit != 0
  2. the pinned test suite on the changed copy must give the baseline result
  3. the property's quick check runs against the changed copy
     (VERIF_REPO=<copy>, VERIF_NO_EVIDENCE=1) - caught = exit 1 + VIOLATION line
The verdicts are written to seeded/<PROPERTY>-<name>/meta.json next to
patch.diff, the demonstration and the agent's notes.
"""
import json
import os
import re
import shutil
import subprocess
import sys
import tempfile
import time

VERIF = os.path.dirname(os.path.dirname(os.path.abspath(__file__)))
PY = "/venv/bin/python"


def run(cmd, **kw):
    return subprocess.run(cmd, capture_output=True, text=True, **kw)


def main():
    args = [a for a in sys.argv[1:] if not a.startswith("--")]
    opts = [a for a in sys.argv[1:] if a.startswith("--")]
    if len(args) < 5 or args[0] != "eval":
        print(__doc__)
        return 2
    _, prop, name, patch, demo = args[:5]
    notes = args[5] if len(args) > 5 else None
    budget = "45"
    for o in opts:
        if o.startswith("--budget="):
            budget = o.split("=", 1)[1]
    meta = {"property": prop, "name": name, "evaluated_at": time.strftime("%Y-%m-%d %H:%M:%S"),
            "repo_head": run(["git", "-C", "/repo", "log", "--format=%h", "-1"]).stdout.strip()}
    d = tempfile.mkdtemp(prefix="seeded.", dir="/dev/shm")
    try:
        copy = os.path.join(d, "repo")
        run(["rsync", "-a", "--exclude", ".git", "--exclude", "doc",
             "--exclude", "__pycache__", "/repo/", copy + "/"])
        p = run(["patch", "-p1", "-s", "-i", os.path.abspath(patch)], cwd=copy)
        meta["patch_applies"] = p.returncode == 0
        if p.returncode != 0:
            meta["patch_error"] = (p.stdout + p.stderr)[-500:]
            print("PATCH DOES NOT APPLY", meta["patch_error"])
        else:
            a = run([PY, os.path.abspath(demo), "/repo"], timeout=300)
            b = run([PY, os.path.abspath(demo), copy], timeout=300)
            meta["demo_unchanged_exit"] = a.returncode
            meta["demo_changed_exit"] = b.returncode
            meta["demo_changed_tail"] = (b.stdout + b.stderr)[-400:]
            meta["demo_ok"] = a.returncode == 0 and b.returncode != 0
            print(f"demo: unchanged exit {a.returncode}, changed exit {b.returncode}")
            if "--no-tests" not in opts:
                t = run([PY, "-m", "pytest", "-q", "-p", "no:cacheprovider", "--timeout=900",
                         "--continue-on-collection-errors", "typhon/tests"], cwd=copy,
                        timeout=1800)
                tail = t.stdout.strip().splitlines()[-1] if t.stdout.strip() else ""
                meta["pinned_suite_tail"] = tail
                m = re.search(r"(\d+) failed, (\d+) passed", tail)
                meta["pinned_suite_ok"] = bool(m and m.group(1) == "8" and m.group(2) == "117"
                                               and "1 error" in tail)
                print("pinned suite:", tail)
            env = dict(os.environ, VERIF_REPO=copy, VERIF_NO_EVIDENCE="1")
            t0 = time.time()
            c = run([PY, os.path.join(VERIF, "check.py"), prop, "--budget", budget],
                    env=env, timeout=3600)
            meta["check_exit"] = c.returncode
            meta["check_wall_s"] = round(time.time() - t0, 1)
            meta["check_budget_s"] = float(budget)
            sigs = re.findall(r"^violation: (\S+)", c.stdout, flags=re.M)
            meta["check_signatures"] = sigs
            meta["caught"] = c.returncode == 1 and "VIOLATION property=" in c.stdout
            meta["check_tail"] = c.stdout[-1500:]
            print(f"check {prop}: exit {c.returncode}, caught={meta['caught']}, "
                  f"signatures {sigs}")
            for rp in re.findall(r"replay=(\S+)", c.stdout):
                if os.path.exists(rp):
                    os.remove(rp)       # replays of mutants are not kept
    finally:
        shutil.rmtree(d, ignore_errors=True)
    out = os.path.join(VERIF, "seeded", f"{prop}-{name}")
    os.makedirs(out, exist_ok=True)
    shutil.copy(patch, os.path.join(out, "patch.diff"))
    shutil.copy(demo, os.path.join(out, "demo.py"))
    if notes and os.path.exists(notes):
        shutil.copy(notes, os.path.join(out, "notes.md"))
        with open(notes) as f:
            meta["needs_to_manifest"] = f.read()[:1500]
    meta["what_i_ran"] = (
        f"tools/seeded.py eval {prop} {name}: patch applied to an rsync copy of "
        f"/repo under /dev/shm; demo.py on /repo and on the copy; pinned pytest "
        f"suite on the copy; check.py {prop} --budget {budget} with VERIF_REPO=<copy>")
    with open(os.path.join(out, "meta.json"), "w") as f:
        json.dump(meta, f, indent=1)
    return 0


if __name__ == "__main__":
    sys.exit(main())
