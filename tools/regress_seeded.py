#!/venv/bin/python
"""Re-run the quick checks against every archived seeded change.

usage: tools/regress_seeded.py [--budget S] [NAME-PREFIX ...]

For each seeded/<ID>-<name>/patch.diff: rsync copy of /repo under /dev/shm,
apply the patch, run `check.py <ID> --budget S` with VERIF_REPO=<copy>,
print one line `<dir> caught=<bool> exit=<n> signatures=[...]`.  Nothing is
written into seeded/ (the archived verdicts stay as evaluated).  Exit code 0;
the summary line says how many verdicts differ from the archived meta.json.
"""
import glob
import json
import os
import re
import shutil
import subprocess
import sys
import tempfile

VERIF = os.path.dirname(os.path.dirname(os.path.abspath(__file__)))
PY = "/venv/bin/python"


def main():
    args = [a for a in sys.argv[1:] if not a.startswith("--")]
    budget = "45"
    for a in sys.argv[1:]:
        if a.startswith("--budget="):
            budget = a.split("=", 1)[1]
    dirs = sorted(glob.glob(os.path.join(VERIF, "seeded", "*-*")))
    if args:
        dirs = [d for d in dirs if any(os.path.basename(d).startswith(p) for p in args)]
    changed = 0
    for d in dirs:
        name = os.path.basename(d)
        prop = name.split("-")[0]
        patch = os.path.join(d, "patch.diff")
        if not os.path.exists(patch):
            continue
        try:
            meta = json.load(open(os.path.join(d, "meta.json")))
        except Exception:  # noqa
            meta = {}
        tmp = tempfile.mkdtemp(prefix="regress.", dir="/dev/shm")
        try:
            copy = os.path.join(tmp, "repo")
            subprocess.run(["rsync", "-a", "--exclude", ".git", "--exclude", "doc",
                            "--exclude", "__pycache__", "/repo/", copy + "/"], check=True)
            p = subprocess.run(["patch", "-p1", "-s", "-i", patch], cwd=copy,
                               capture_output=True, text=True)
            if p.returncode != 0:
                print(f"{name} PATCH-DOES-NOT-APPLY (the tree has moved on)", flush=True)
                continue
            b = budget if prop not in ("C04", "C05") else str(max(90, int(float(budget))))
            env = dict(os.environ, VERIF_REPO=copy, VERIF_NO_EVIDENCE="1")
            c = subprocess.run([PY, os.path.join(VERIF, "check.py"), prop, "--budget", b],
                               env=env, capture_output=True, text=True, timeout=3600)
            sigs = re.findall(r"^violation: (\S+)", c.stdout, flags=re.M)
            caught = c.returncode == 1 and "VIOLATION property=" in c.stdout
            for rp in re.findall(r"replay=(\S+)", c.stdout):
                if os.path.exists(rp):
                    os.remove(rp)
            was = meta.get("caught")
            flag = "" if was == caught else f"  (archived verdict: caught={was})"
            if was != caught:
                changed += 1
            print(f"{name} caught={caught} exit={c.returncode} signatures={sigs[:4]}{flag}",
                  flush=True)
            if c.returncode not in (0, 1) or (c.returncode == 1 and not caught):
                for ln in (c.stdout + c.stderr).splitlines():
                    if "HARNESS" in ln or "Error" in ln:
                        print("    " + ln[:300], flush=True)
        finally:
            shutil.rmtree(tmp, ignore_errors=True)
    print(f"REGRESS-DONE {len(dirs)} changes, {changed} verdicts differ from the archive",
          flush=True)
    return 0


if __name__ == "__main__":
    sys.exit(main())
