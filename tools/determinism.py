#!/venv/bin/python
"""Determinism proof for the simulation engines.

For every engine (or the ones named on the command line) N run seeds are
executed in four fresh interpreters - PYTHONHASHSEED 0 twice, PYTHONHASHSEED
4242 once, and once split over several concurrent processes - and the per-seed
lines `<run seed> <workload digest> <event digest> <violation signatures>` are
compared.  Any difference is printed and the exit code is 1.

usage: tools/determinism.py [-n RUNS] [ID ...]
"""
import os
import subprocess
import sys
from concurrent.futures import ThreadPoolExecutor

VERIF = os.path.dirname(os.path.dirname(os.path.abspath(__file__)))
PY = "/venv/bin/python"
ALL = ["C01", "C04", "C05", "C06", "C10", "C11", "C12", "C15", "C16", "C20"]


def digests(pid, n, hashseed, seed):
    env = dict(os.environ, VERIF_HASHSEED=str(hashseed), VERIF_NO_EVIDENCE="1")
    env.pop("PYTHONHASHSEED", None)
    p = subprocess.run([PY, os.path.join(VERIF, "check.py"), pid, "--digests",
                        "--max-runs", str(n), "--seed", str(seed)],
                       capture_output=True, text=True, env=env, timeout=3600)
    if p.returncode != 0:
        raise RuntimeError(f"{pid}: digest run failed:\n{p.stdout[-500:]}{p.stderr[-1500:]}")
    return [l for l in p.stdout.splitlines() if l and l[0].isdigit()]


def main():
    args = sys.argv[1:]
    n = 40
    if "-n" in args:
        i = args.index("-n")
        n = int(args[i + 1])
        del args[i:i + 2]
    ids = [a.upper() for a in args] or ALL
    bad = 0
    for pid in ids:
        per = {"C20": max(6, n // 8), "C05": n, "C04": n}.get(pid, n)
        a = digests(pid, per, 0, 777)
        b = digests(pid, per, 0, 777)
        c = digests(pid, per, 4242, 777)
        # the same seeds while 8 other interpreters of the same engine run
        with ThreadPoolExecutor(8) as ex:
            futs = [ex.submit(digests, pid, per, 0, 777 if k == 0 else 1000 + k)
                    for k in range(8)]
            d = futs[0].result()
            for f in futs[1:]:
                f.result()
        ok = a == b == c == d and len(a) == per
        print(f"{pid}: {per} run seeds x 4 interpreters "
              f"(hash seeds 0,0,4242, and under 8-fold process load): "
              f"{'identical' if ok else 'DIFFERENT'}")
        if not ok:
            bad += 1
            for name, other in (("repeat", b), ("hashseed 4242", c), ("under load", d)):
                for x, y in zip(a, other):
                    if x != y:
                        print(f"   {name}: {x}  !=  {y}")
                        break
    return 1 if bad else 0


if __name__ == "__main__":
    sys.exit(main())
