#!/bin/bash
# usage: tools/mutant.sh <PROPERTY> <patch-file|-> [extra check.py args]
# Copies /repo's working tree to /dev/shm, applies the patch (from file or
# stdin), runs the check with VERIF_REPO pointing at the copy, removes the copy.
# Never touches /repo; evidence is not written (VERIF_NO_EVIDENCE).
set -u
pid=$1; patch=$2; shift 2
d=$(mktemp -d /dev/shm/mutant.XXXXXX)
mkdir -p "$d/repo"
rsync -a --exclude .git --exclude doc --exclude '__pycache__' /repo/ "$d/repo/"
if [ "$patch" = "-" ]; then patch=/dev/stdin; fi
( cd "$d/repo" && patch -p1 -s < "$patch" ) || { echo "PATCH FAILED"; rm -rf "$d"; exit 3; }
VERIF_REPO="$d/repo" VERIF_NO_EVIDENCE=1 timeout 900 /venv/bin/python /verif/check.py "$pid" "$@"
rc=$?
rm -rf "$d"
echo "mutant exit code: $rc"
exit $rc
