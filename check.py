#!/venv/bin/python
"""CLI of the verification machinery:  check.py <PROPERTY> [--tier quick|thorough]
[--seed N] [--replay FILE] ...   (see sim/runner.py).

Re-executes itself with PYTHONHASHSEED=0 so that set/dict iteration inside
typhon and its dependencies cannot differ between two runs of one seed
(VERIF_HASHSEED overrides the value for the determinism self-test)."""
import os
import sys

if __name__ == "__main__":
    want = os.environ.get("VERIF_HASHSEED", "0")
    if os.environ.get("PYTHONHASHSEED") != want:
        env = dict(os.environ)
        env["PYTHONHASHSEED"] = want
        os.execve(sys.executable, [sys.executable] + sys.argv, env)
    here = os.path.dirname(os.path.abspath(__file__))
    sys.path.insert(0, here)
    # thread-heavy numeric libraries must not start their own pools
    for var in ("OMP_NUM_THREADS", "OPENBLAS_NUM_THREADS", "MKL_NUM_THREADS"):
        os.environ.setdefault(var, "1")
    from sim.runner import main
    sys.exit(main())
