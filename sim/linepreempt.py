"""Optional line-level pre-emption for simulated tasks.

The default pre-emption points of the kernel are the intercepted pool / queue /
process operations and the yield points inside harness callbacks.  A data race
between two *bytecodes of typhon itself* (e.g. `self.index = build(); ...;
self.index.query()` executed by two pool workers sharing one object) needs a
switch where no such operation happens.  With line pre-emption enabled, every
worker task runs under sys.settrace restricted to frames of the files under
test; at tape-chosen line-event numbers (PCT style: a handful per run) the task
yields.  The trace function never draws from the tape itself - the points are
fixed when the run starts - so logging/tracing cannot perturb the schedule.
"""
import sys


class LinePreempt:
    def __init__(self, sim, prefixes, points):
        self.sim = sim
        self.prefixes = tuple(prefixes)
        self.points = frozenset(points)     # global line-event numbers
        self.count = 0
        self.fired = 0

    def install(self):
        """Call at the start of a task's thread."""
        sys.settrace(self._call)

    def uninstall(self):
        sys.settrace(None)

    def _call(self, frame, event, arg):
        if event == "call" and frame.f_code.co_filename.startswith(self.prefixes):
            return self._line
        return None

    def _line(self, frame, event, arg):
        if event == "line":
            self.count += 1
            if self.count in self.points:
                self.fired += 1
                self.sim.yield_(f"line:{frame.f_code.co_name}:{frame.f_lineno}")
        return self._line


def draw_points(tape, n, horizon, label="linepoint"):
    return [1 + tape.choice(horizon, label) for _ in range(n)]
