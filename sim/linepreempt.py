"""Optional line-level pre-emption for simulated tasks.

The default pre-emption points of the kernel are the intercepted pool / queue /
process / file-system operations and the yield points inside harness callbacks.
A data race between two *lines of typhon itself* (e.g. `self.index = build()`
followed by `self.index.query()` executed by two pool workers that share one
object) needs a switch where no such operation happens.

With line pre-emption enabled the functions of the modules under test are
instrumented with sys.monitoring LINE events (PEP 669, Python >= 3.12: events
are enabled per code object, so code outside those modules runs at full speed).
Whenever a *worker* task (name filter `only`) executes an instrumented line the
global line counter advances (each task counts a line only at its first
execution, so loops do not dominate); at the numbers in `points` - fixed from
the tape before the run starts, typically `phase + k * stride` - the task
yields to the scheduler.  The callback itself never draws from the tape and reads no clock.
"""
import dis
import sys
import types

_TOOL = 4     # a free sys.monitoring tool id (0-5)


def _code_objects(module):
    seen, out = set(), []

    def add(code):
        if id(code) in seen:
            return
        seen.add(id(code))
        out.append(code)
        for c in code.co_consts:
            if isinstance(c, types.CodeType):
                add(c)

    fn = getattr(module, "__file__", None)
    for obj in list(vars(module).values()):
        cands = [obj]
        if isinstance(obj, type):
            cands = list(vars(obj).values())
        for c in list(cands):
            if isinstance(c, property):
                cands.extend(x for x in (c.fget, c.fset, c.fdel) if x is not None)
        for c in cands:
            f = getattr(c, "__func__", c)
            f = getattr(f, "__wrapped__", f)
            code = getattr(f, "__code__", None)
            if isinstance(code, types.CodeType) and code.co_filename == fn:
                add(code)
    return out


_STORES = {"STORE_ATTR", "DELETE_ATTR", "STORE_GLOBAL", "DELETE_GLOBAL"}


def _store_lines(code):
    """Lines of `code` that assign an attribute or a module global."""
    out = set()
    line = None
    for ins in dis.get_instructions(code):
        if ins.starts_line is not None:
            line = ins.starts_line
        if ins.opname in _STORES and line is not None:
            out.add(line)
    return out


class LinePreempt:
    """points: numbers of the (loop-insensitive) global line counter at which
    the running worker yields.  store_points: the same for the second counter,
    which advances only on a line that directly follows - in the same task -
    a line assigning an attribute or module global: the moment where another
    task can still change shared state between a task's write and its next
    read."""

    def __init__(self, sim, modules, points, only=None, store_points=()):
        self.sim = sim
        self.modules = list(modules)
        self.points = frozenset(points)
        self.store_points = frozenset(store_points)
        self.store_count = 0
        self._stores = {}
        self._last = {}
        self.only = only          # pre-empt only tasks whose name contains this
        self.count = 0
        self.fired = 0
        self._codes = []
        self._seen = {}
        self._active = False

    # the kernel calls install()/uninstall() around every task body; the
    # instrumentation is global, so only the first/last call matters
    def install(self):
        if self._active:
            return
        mon = sys.monitoring
        try:
            mon.use_tool_id(_TOOL, "typhon-verif-linepreempt")
        except ValueError:
            mon.free_tool_id(_TOOL)
            mon.use_tool_id(_TOOL, "typhon-verif-linepreempt")
        mon.register_callback(_TOOL, mon.events.LINE, self._line)
        self._codes = [c for m in self.modules for c in _code_objects(m)]
        for c in self._codes:
            mon.set_local_events(_TOOL, c, mon.events.LINE)
            if self.store_points:
                for ln in _store_lines(c):
                    self._stores[(id(c), ln)] = True
        self._active = True

    def uninstall(self):
        pass          # see close(): other tasks may still be running

    def close(self):
        if not self._active:
            return
        mon = sys.monitoring
        for c in self._codes:
            try:
                mon.set_local_events(_TOOL, c, 0)
            except ValueError:
                pass
        mon.register_callback(_TOOL, mon.events.LINE, None)
        mon.free_tool_id(_TOOL)
        self._active = False

    def _line(self, code, line):
        sim = self.sim
        t = sim.current
        if t is None or t.state == "done" or sim.aborted is not None:
            return
        if self.only is not None and self.only not in t.name:
            return
        # loop-insensitive stepping: a task counts every line only the first
        # time it executes it, otherwise a hot inner loop would swallow all
        # pre-emption points
        key = (id(code), line)
        hit = False
        if self.store_points:
            last = self._last.get(t.name)
            self._last[t.name] = key
            if last in self._stores:
                self.store_count += 1
                hit = self.store_count in self.store_points
        seen = self._seen.get(t.name)
        if seen is None:
            seen = self._seen[t.name] = set()
        if key not in seen:
            seen.add(key)
            self.count += 1
            hit = hit or self.count in self.points
        if hit:
            self.fired += 1
            sim.yield_(f"line:{code.co_name}:{line}")


def periodic_points(phase, stride, n):
    return [phase + k * stride for k in range(n)]
