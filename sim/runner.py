"""Batch runner, replay, minimisation glue, evidence writer.

An *engine* (props/<id>.py) provides
    PROPERTY_ID, LEVEL, RULE, ASSUMPTIONS, COMPONENTS, DEFAULTS
    setup()                      import typhon from the tree under test
    run_one(tape, only=None)     one simulated run -> dict (see _blank_result)
`only` restricts an enumeration engine to the single faulted execution that a
replay file names.

Exit codes: 0 held / only known findings; 1 violation (VIOLATION line printed);
2 harness error (no VIOLATION line is ever printed for those).
"""
import faulthandler
import hashlib
import json
import multiprocessing
import os
import random
import sys
import time
import traceback
from concurrent.futures import ProcessPoolExecutor, wait, FIRST_COMPLETED

from . import ENGINE_VERSION
from .tape import Tape, Divergence
from .kernel import HarnessError

VERIF = os.path.dirname(os.path.dirname(os.path.abspath(__file__)))
REPO = os.environ.get("VERIF_REPO", "/repo")


def scratch_root():
    for d in ("/dev/shm", os.environ.get("TMPDIR") or "/tmp"):
        if os.path.isdir(d) and os.access(d, os.W_OK):
            p = os.path.join(d, "typhon-verif")
            os.makedirs(p, exist_ok=True)
            return p
    raise HarnessError("no scratch directory")


def _blank_result():
    return {
        "violations": [],      # [{signature, message, extra}]
        "nontrivial": False,
        "wdigest": "",         # digest of the workload
        "edigest": "",         # digest of the event order
        "executions": 1,
        "faults": {},
        "probes": {},
        "counters": {},
        "sim_seconds": 0.0,
        "sample": None,
        "kinds": [],           # coarse labels for the evidence (policy, mode..)
        "sets": {},            # name -> list of hashable items (union over runs)
    }


def new_result():
    return _blank_result()


# ------------------------------------------------------------------ worker --
_ENGINE = None


def _load_engine(pid):
    global _ENGINE
    if _ENGINE is None or _ENGINE.PROPERTY_ID != pid:
        sys.path.insert(0, VERIF)
        mod = __import__(f"props.{pid.lower()}", fromlist=["*"])
        mod.setup()
        _ENGINE = mod
    return _ENGINE


def _agg_new():
    return {"runs": 0, "executions": 0, "nontrivial": 0, "pairs": set(),
            "interleavings": set(), "workloads": set(), "faults": {},
            "probes": {}, "counters": {}, "sim_seconds": 0.0, "kinds": {},
            "violations": [], "samples": [], "selfcheck": 0,
            "harness_errors": [], "sets": {}}


def _merge_counts(dst, src):
    for k, v in src.items():
        dst[k] = dst.get(k, 0) + v


def _agg_add(agg, seed, res, keep_samples):
    agg["runs"] += 1
    agg["executions"] += res["executions"]
    if res["nontrivial"]:
        agg["nontrivial"] += 1
        if res.get("distinct_keys") is not None:
            agg["pairs"].update(res["distinct_keys"])
        else:
            agg["pairs"].add(res["wdigest"] + ":" + res["edigest"])
    agg["interleavings"].add(res["edigest"])
    agg["workloads"].add(res["wdigest"])
    _merge_counts(agg["faults"], res["faults"])
    _merge_counts(agg["probes"], res["probes"])
    _merge_counts(agg["counters"], res["counters"])
    for k in res["kinds"]:
        agg["kinds"][k] = agg["kinds"].get(k, 0) + 1
    agg["sim_seconds"] += res["sim_seconds"]
    for k, items in res.get("sets", {}).items():
        agg["sets"].setdefault(k, set()).update(items)
    if res["sample"] is not None and len(agg["samples"]) < keep_samples \
            and res["nontrivial"]:
        agg["samples"].append({"run_seed": seed, **res["sample"]})
    for v in res["violations"]:
        agg["violations"].append({"run_seed": seed, **v})


def _agg_merge(a, b):
    for k in ("runs", "executions", "nontrivial", "selfcheck"):
        a[k] += b[k]
    for k in ("pairs", "interleavings", "workloads"):
        a[k] |= b[k]
    for k in ("faults", "probes", "counters", "kinds"):
        _merge_counts(a[k], b[k])
    a["sim_seconds"] += b["sim_seconds"]
    for k, items in b["sets"].items():
        a["sets"].setdefault(k, set()).update(items)
    a["violations"].extend(b["violations"])
    a["harness_errors"].extend(b["harness_errors"])
    for s in b["samples"]:
        if len(a["samples"]) < 6:
            a["samples"].append(s)


def run_seed(engine, seed, only=None):
    tape = Tape(seed)
    res = engine.run_one(tape, only=only)
    res["_tape"] = tape.recorded()
    return res


def _chunk(pid, seeds, per_run_wall):
    """Executed in a worker process."""
    engine = _load_engine(pid)
    agg = _agg_new()
    first = None
    for i, seed in enumerate(seeds):
        faulthandler.dump_traceback_later(per_run_wall, exit=True)
        try:
            res = run_seed(engine, seed)
        except (HarnessError, Divergence) as e:
            agg["harness_errors"].append(f"seed {seed}: {type(e).__name__}: {e}")
            continue
        except Exception as e:  # noqa: an engine bug is a harness error
            agg["harness_errors"].append(
                f"seed {seed}: {type(e).__name__}: {e}\n"
                + traceback.format_exc(limit=12))
            continue
        finally:
            faulthandler.cancel_dump_traceback_later()
        vals, labels = res.pop("_tape")
        for v in res["violations"]:
            v["tape"] = vals
            v["labels"] = labels
        _agg_add(agg, seed, res, keep_samples=2)
        if i == 0:
            first = (seed, res["wdigest"], res["edigest"],
                     [v["signature"] for v in res["violations"]])
    # determinism self-check: same seed again must give the same digests
    if first is not None:
        seed, wd, ed, sigs = first
        try:
            res = run_seed(engine, seed)
            res.pop("_tape")
            if (res["wdigest"], res["edigest"],
                    [v["signature"] for v in res["violations"]]) != (wd, ed, sigs):
                agg["harness_errors"].append(
                    f"seed {seed}: non-deterministic: {wd}/{ed} vs "
                    f"{res['wdigest']}/{res['edigest']}")
            agg["selfcheck"] += 1
        except Exception as e:  # noqa
            agg["harness_errors"].append(
                f"seed {seed} (repeat): {type(e).__name__}: {e}")
    return agg


# --------------------------------------------------------------- findings --
def load_known():
    path = os.path.join(VERIF, "known_findings.json")
    if not os.path.exists(path):
        return []
    with open(path) as f:
        return json.load(f)["findings"]


def classify(pid, signature, known):
    for k in known:
        if k.get("status") == "known" and k["property"] == pid \
                and k["signature"] == signature:
            return k
    return None


# --------------------------------------------------------------- minimise --
def _reproduces(engine, values, signature, only=None):
    tape = Tape(replay=values, strict=False)
    try:
        res = engine.run_one(tape, only=only)
    except (HarnessError, Divergence):
        return None
    except Exception:  # noqa
        return None
    for v in res["violations"]:
        if v["signature"] == signature:
            vals, labels = tape.recorded()
            return vals, labels, v, res
    return None


def minimise(engine, values, signature, budget_s=60.0):
    """Delta debugging over the tape; keeps candidates with the same signature.
    Returns (values, labels, violation, result) of the smallest reproduction."""
    t_end = time.time() + budget_s
    best = _reproduces(engine, values, signature)
    if best is None:
        return None
    tried = 0

    def attempt(cand):
        nonlocal best, tried
        if time.time() > t_end:
            return False
        tried += 1
        r = _reproduces(engine, cand, signature)
        if r is not None and (len(r[0]), sum(r[0])) < (len(best[0]), sum(best[0])):
            best = r
            return True
        return False

    # 0. structure-aware pass: zero all entries that share a label (e.g. every
    # scheduling decision -> "keep running the current task", every stall,
    # every queue delay), then halves of such groups
    labels = best[1]
    groups = {}
    for i, lab in enumerate(labels):
        groups.setdefault(lab, []).append(i)
    for lab, idxs in sorted(groups.items(), key=lambda kv: -len(kv[1])):
        if len(idxs) < 3 or time.time() > t_end:
            continue
        cur = best[0]
        if len(cur) != len(labels):
            break                      # positions shifted: leave it to ddmin
        todo = [idxs]
        while todo and time.time() < t_end:
            part = todo.pop()
            if not any(cur[i] for i in part if i < len(cur)):
                continue
            cand = list(cur)
            for i in part:
                if i < len(cand):
                    cand[i] = 0
            if attempt(cand):
                cur = best[0]
                if len(cur) != len(labels):
                    break
            elif len(part) > 4:
                todo.append(part[:len(part) // 2])
                todo.append(part[len(part) // 2:])
        if len(best[0]) != len(labels):
            break
    improved = True
    while improved and time.time() < t_end:
        improved = False
        cur = best[0]
        # strip trailing zeros (implicit)
        while cur and cur[-1] == 0:
            cur = cur[:-1]
        # 1. delete spans
        size = max(1, len(cur) // 2)
        while size >= 1 and time.time() < t_end:
            i = 0
            while i < len(cur) and time.time() < t_end:
                cand = cur[:i] + cur[i + size:]
                if attempt(cand):
                    cur = best[0]
                    improved = True
                else:
                    i += size
            size //= 2
        # 2. zero / halve / decrement single entries
        i = 0
        while i < len(cur) and time.time() < t_end:
            if cur[i] != 0:
                for nv in (0, cur[i] // 2, cur[i] - 1):
                    if nv < cur[i]:
                        cand = cur[:i] + [nv] + cur[i + 1:]
                        if attempt(cand):
                            cur = best[0]
                            improved = True
                            break
            i += 1
    return best + (tried,)


def write_replay(pid, run_seed_, values, labels, violation, res, note=""):
    os.makedirs(os.path.join(VERIF, "replays"), exist_ok=True)
    h = hashlib.sha256(json.dumps(
        [values, violation["signature"]]).encode()).hexdigest()[:10]
    path = os.path.join(VERIF, "replays", f"{pid}-{h}.json")
    doc = {
        "property": pid,
        "engine_version": ENGINE_VERSION,
        "run_seed": run_seed_,
        "signature": violation["signature"],
        "message": violation["message"],
        "extra": violation.get("extra"),
        "tape": values,
        "labels": labels,
        "edigest": res["edigest"],
        "wdigest": res["wdigest"],
        "workload": res["sample"],
        "trace": res.get("trace"),      # schedule / fault trace of the minimised run
        "note": note,
    }
    with open(path, "w") as f:
        json.dump(doc, f, indent=1, default=str)
    return path


def replay_file(engine, path):
    with open(path) as f:
        doc = json.load(f)
    tape = Tape(replay=doc["tape"], labels=doc.get("labels"), strict=True)
    res = engine.run_one(tape, only=doc.get("extra"))
    sigs = [v["signature"] for v in res["violations"]]
    ok = doc["signature"] in sigs and res["edigest"] == doc["edigest"]
    return ok, res, doc


def _replay_in_fresh_process(pid, path):
    import subprocess
    env = dict(os.environ)
    env["VERIF_NO_EVIDENCE"] = "1"
    p = subprocess.run(
        [sys.executable, os.path.join(VERIF, "check.py"), pid, "--replay", path],
        capture_output=True, text=True, env=env, timeout=600)
    return p.returncode == 1 and "VIOLATION" in p.stdout, p.stdout + p.stderr


# ---------------------------------------------------------------- evidence --
def write_evidence(engine, tier, seed, agg, wall, extra_cov, n_viol, jobs):
    pid = engine.PROPERTY_ID
    runs = agg["runs"]
    cov = {
        "evaluations": int(agg["executions"]),
        "distinct_nontrivial": len(agg["pairs"]),
        "rule": engine.RULE,
        "samples": agg["samples"][:4] or [{"note": "no non-trivial sample"}],
        "simulated_runs": runs,
        "nontrivial_runs": agg["nontrivial"],
        "runs_per_hour": int(runs / wall * 3600) if wall > 0 else 0,
        "executions_per_hour": int(agg["executions"] / wall * 3600) if wall > 0 else 0,
        "batch_seed": seed,
        "run_seed_derivation": "random.Random(batch_seed).getrandbits(48), i-th draw = i-th run",
        "simulated_seconds": round(agg["sim_seconds"], 3),
        "faults_fired": dict(sorted(agg["faults"].items())),
        "distinct_interleavings": len(agg["interleavings"]),
        "distinct_workloads": len(agg["workloads"]),
        "probes": dict(sorted(agg["probes"].items())),
        "counters": dict(sorted(agg["counters"].items())),
        "run_kinds": dict(sorted(agg["kinds"].items())),
        "components": engine.COMPONENTS,
        "determinism_selfchecks": agg["selfcheck"],
        "worker_processes": jobs,
        "exhaustive": False,
    }
    cov.update(extra_cov or {})
    doc = {
        "property_id": pid,
        "tier": tier,
        "seed": int(seed),
        "level": engine.LEVEL,
        "coverage": cov,
        "assumptions": engine.ASSUMPTIONS,
        "wall_s": round(wall, 2),
        "violations": int(n_viol),
    }
    if os.environ.get("VERIF_NO_EVIDENCE"):
        return doc
    os.makedirs(os.path.join(VERIF, "evidence"), exist_ok=True)
    path = os.path.join(VERIF, "evidence", f"{pid}.json")
    tmp = path + ".tmp"
    with open(tmp, "w") as f:
        json.dump(doc, f, indent=1, default=str)
    os.replace(tmp, path)
    return doc


# -------------------------------------------------------------------- main --
def _sweep_stale_scratch(max_age_s=6 * 3600):
    """Remove scratch directories that killed runs left behind long ago."""
    import shutil
    root = scratch_root()
    now = time.time()
    for name in os.listdir(root):
        p = os.path.join(root, name)
        try:
            if now - os.path.getmtime(p) > max_age_s:
                shutil.rmtree(p, ignore_errors=True)
        except OSError:
            pass


def batch(pid, tier, seed, budget_s, jobs, max_runs, chunk_size, per_run_wall):
    _sweep_stale_scratch()
    known_sigs = {k["signature"] for k in load_known()
                  if k.get("status") == "known" and k["property"] == pid}
    engine = _load_engine(pid)          # import before forking
    rng = random.Random(seed)
    agg = _agg_new()
    t0 = time.time()
    submitted = 0
    ctx = multiprocessing.get_context("fork")
    harness_fail = None
    with ProcessPoolExecutor(max_workers=jobs, mp_context=ctx) as ex:
        pending = set()

        def more():
            nonlocal submitted
            if max_runs is not None and submitted >= max_runs:
                return False
            n = chunk_size if max_runs is None else min(chunk_size, max_runs - submitted)
            seeds = [rng.getrandbits(48) for _ in range(n)]
            submitted += n
            pending.add(ex.submit(_chunk, pid, seeds, per_run_wall))
            return True

        for _ in range(jobs * 2):
            if not more():
                break
        while pending:
            done, _ = wait(pending, timeout=per_run_wall * chunk_size + 60,
                           return_when=FIRST_COMPLETED)
            if not done:
                harness_fail = "worker chunk timed out"
                break
            for fut in done:
                pending.discard(fut)
                try:
                    _agg_merge(agg, fut.result())
                except Exception as e:  # noqa: worker died (faulthandler exit)
                    harness_fail = f"worker failed: {type(e).__name__}: {e}"
            if harness_fail:
                break
            # stop early once enough unknown violations are in hand (runs
            # that only hit a recorded known finding do not count)
            unknown_n = sum(1 for v in agg["violations"]
                            if v["signature"] not in known_sigs)
            if time.time() - t0 < budget_s and unknown_n < 200:
                while len(pending) < jobs * 2 and more():
                    pass
        if harness_fail:
            for p in pending:
                p.cancel()
            procs = list((getattr(ex, "_processes", None) or {}).values())
            ex.shutdown(wait=False, cancel_futures=True)
            for proc in procs:
                try:
                    proc.kill()
                except Exception:  # noqa
                    pass
    return engine, agg, time.time() - t0, harness_fail


def main(argv=None):
    import argparse
    ap = argparse.ArgumentParser()
    ap.add_argument("pid")
    ap.add_argument("--tier", default=os.environ.get("VERIF_TIER") or "quick")
    ap.add_argument("--seed", type=int, default=None)
    ap.add_argument("--budget", type=float, default=None)
    ap.add_argument("--jobs", type=int, default=None)
    ap.add_argument("--max-runs", type=int, default=None)
    ap.add_argument("--replay", default=None)
    ap.add_argument("--digests", action="store_true",
                    help="print one digest line per run seed (determinism tests)")
    ap.add_argument("--no-minimise", action="store_true")
    args = ap.parse_args(argv)
    pid = args.pid.upper()
    tier = args.tier if args.tier in ("quick", "thorough") else "quick"
    seed = args.seed
    if seed is None:
        try:
            seed = int(os.environ.get("VERIF_SEED", "") or 20260926)
        except ValueError:
            seed = 20260926
    jobs = args.jobs or int(os.environ.get("VERIF_JOBS", "0") or 0) or \
        min(16, os.cpu_count() or 4)

    os.environ["VERIF_TIER"] = tier      # engines may deepen their plan
    engine = _load_engine(pid)
    d = engine.DEFAULTS[tier]
    budget = args.budget if args.budget is not None else float(
        os.environ.get("VERIF_BUDGET_S", "") or d["budget_s"])
    chunk = d.get("chunk", 20)
    per_run_wall = d.get("per_run_wall", 120)

    # ---- replay mode -----------------------------------------------------
    if args.replay:
        try:
            ok, res, doc = replay_file(engine, args.replay)
        except Divergence as e:
            print(f"HARNESS-ERROR replay diverged: {e}")
            return 2
        if ok:
            print(f"replayed: {doc['signature']}\n  {doc['message']}")
            print(f"VIOLATION property={pid} replay={args.replay}")
            return 1
        sigs = [v["signature"] for v in res["violations"]]
        print(f"HARNESS-ERROR replay did not reproduce: wanted "
              f"{doc['signature']} digest {doc['edigest']}, got {sigs} "
              f"digest {res['edigest']}")
        return 2

    if args.digests:
        rng = random.Random(seed)
        for _ in range(args.max_runs or 20):
            s = rng.getrandbits(48)
            res = run_seed(engine, s)
            print(s, res["wdigest"], res["edigest"],
                  ",".join(v["signature"] for v in res["violations"]))
        return 0

    # ---- batch -------------------------------------------------------------
    engine, agg, wall, harness_fail = batch(
        pid, tier, seed, budget, jobs, args.max_runs, chunk, per_run_wall)
    if harness_fail or agg["harness_errors"]:
        for e in agg["harness_errors"][:10]:
            print("HARNESS-ERROR", e)
        if harness_fail:
            print("HARNESS-ERROR", harness_fail)
        return 2

    known = load_known()
    known_hit = {}
    unknown = {}
    for v in agg["violations"]:
        k = classify(pid, v["signature"], known)
        if k is not None:
            known_hit.setdefault(v["signature"], [k, 0])[1] += 1
        else:
            unknown.setdefault(v["signature"], []).append(v)

    for sig, (k, n) in sorted(known_hit.items()):
        print(f"KNOWN-FINDING: property={pid} {k['what']} "
              f"[signature={sig}; seen in {n} run(s)]")

    exit_code = 0
    replay_paths = []
    t_min = d.get("minimise_s", 60)
    for sig, vs in sorted(unknown.items()):
        v = min(vs, key=lambda x: len(x["tape"]))
        vals, labels, viol, res = v["tape"], v["labels"], v, None
        note = "not minimised"
        if not args.no_minimise:
            m = minimise(engine, v["tape"], sig, budget_s=t_min / max(1, len(unknown)))
            if m is not None:
                vals, labels, viol, res, tried = m
                note = f"minimised from {len(v['tape'])} to {len(vals)} tape " \
                       f"entries in {tried} attempts"
        if res is None:
            r = _reproduces(engine, v["tape"], sig)
            if r is None:
                print(f"HARNESS-ERROR violation {sig} from seed {v['run_seed']} "
                      f"did not reproduce in-process")
                return 2
            vals, labels, viol, res = r
        if viol.get("extra") is not None:
            # enumeration engines: the replay executes only the named fault
            # point, so digest and message must come from such an execution
            t1 = Tape(replay=vals, strict=False)
            r1 = engine.run_one(t1, only=viol["extra"])
            same = [x for x in r1["violations"] if x["signature"] == sig]
            if not same:
                print(f"HARNESS-ERROR violation {sig}: single fault point "
                      f"{viol['extra']} does not reproduce it")
                return 2
            vals, labels = t1.recorded()
            viol, res = same[0], r1
        path = write_replay(pid, v["run_seed"], vals, labels, viol, res, note)
        ok, out = _replay_in_fresh_process(pid, path)
        if not ok:
            print(f"HARNESS-ERROR replay file {path} did not reproduce in a "
                  f"fresh process:\n{out[-2000:]}")
            return 2
        print(f"violation: {sig}\n  {viol['message']}\n  ({note}; "
              f"{len(vs)} run(s) hit it)")
        print(f"VIOLATION property={pid} replay={path}")
        replay_paths.append(path)
        exit_code = 1

    extra = {"known_findings_hit": {s: n for s, (k, n) in known_hit.items()},
             "budget_s": budget}
    if hasattr(engine, "extra_coverage"):
        extra.update(engine.extra_coverage(agg))
    doc = write_evidence(engine, tier, seed, agg, wall, extra,
                         len(unknown), jobs)
    cov = doc["coverage"]
    print(f"{pid} {tier}: {cov['simulated_runs']} runs / {cov['evaluations']} "
          f"executions in {wall:.1f}s, {cov['distinct_nontrivial']} distinct "
          f"non-trivial, {cov['distinct_interleavings']} interleavings, "
          f"faults {cov['faults_fired']}, violations {len(unknown)}, "
          f"known {len(known_hit)}")
    # thorough tier: a probe that matters and stays at zero is reported
    if tier == "thorough" and hasattr(engine, "REQUIRED_PROBES"):
        missing = [p for p in engine.REQUIRED_PROBES
                   if not agg["probes"].get(p) and not agg["faults"].get(p)]
        if missing and exit_code == 0:
            print("HARNESS-ERROR thorough run never reached:", missing)
            return 2
    return exit_code
