"""Baton-passing cooperative kernel.

A simulated task is a real thread that only executes while it holds the baton.
At every yield point the running task asks the scheduler (which draws from the
tape) who runs next, releases that task's semaphore and parks on its own one.
Exactly one thread executes at any moment, so the interleaving of the code under
test is a pure function of the tape.

Virtual time: `now` only moves through `sleep`/timers; when no task is runnable
the clock jumps to the next timer.  Dead ends (nothing runnable, no timer) and
the per-run step cap are reported as liveness outcomes.
"""
import hashlib
import heapq
import threading

READY, BLOCKED, DONE = "ready", "blocked", "done"


class SimAbort(BaseException):
    """Unwinds every task when a run is torn down (cap, deadlock, crash)."""


class Deadlock(Exception):
    pass


class StepCap(Exception):
    pass


class HarnessError(Exception):
    """Something is wrong with the simulator itself (never a VIOLATION)."""


class Task:
    __slots__ = ("sim", "name", "idx", "fn", "args", "kwargs", "sem", "state",
                 "pred", "wake", "result", "exc", "thread", "prio", "polls",
                 "group", "steps", "on_exit")

    def __init__(self, sim, name, idx, fn, args, kwargs, group=None):
        self.sim = sim
        self.name = name
        self.idx = idx
        self.fn, self.args, self.kwargs = fn, args, kwargs
        self.sem = threading.Semaphore(0)
        self.state = READY
        self.pred = None
        self.wake = None
        self.result = None
        self.exc = None
        self.thread = None
        self.prio = 0
        self.polls = {}
        self.group = group
        self.steps = 0
        self.on_exit = None

    @property
    def done(self):
        return self.state == DONE

    def __repr__(self):
        return f"<Task {self.name} {self.state}>"


class Sim:
    def __init__(self, tape, policy=None, step_cap=20000, wall_timeout=1500.0,
                 log_schedule=True):
        self.tape = tape
        self.tasks = []
        self.current = None
        self.now = 0.0
        self.timers = []           # heap of (time, seq, callback)
        self._tseq = 0
        self.version = 0           # bumped by every state-changing event
        self.steps = 0
        self.step_cap = step_cap
        self.wall_timeout = wall_timeout
        self.aborted = None        # None or the reason (exception instance)
        self._done_evt = threading.Event()
        self.log = []              # event log (strings), digest input
        self.log_schedule = log_schedule
        self.stats = {"switches": 0, "max_runnable": 0, "decisions_gt1": 0,
                      "clock_jumps": 0, "parked_polls": 0}
        self.probes = {}
        self.policy = policy or {"kind": "random", "bias": 1}
        self._pct_points = None
        self._names = set()
        self.line_preempt = None   # optional sim.linepreempt.LinePreempt

    # ------------------------------------------------------------------ log
    def event(self, *parts):
        self.log.append(" ".join(str(p) for p in parts))

    def probe(self, name, n=1):
        self.probes[name] = self.probes.get(name, 0) + n

    def digest(self):
        h = hashlib.sha256()
        for line in self.log:
            h.update(line.encode("utf-8", "replace"))
            h.update(b"\n")
        return h.hexdigest()[:16]

    def bump(self):
        self.version += 1

    # ---------------------------------------------------------------- tasks
    def spawn(self, name, fn, *args, group=None, **kwargs):
        if name in self._names:
            k = 2
            while f"{name}#{k}" in self._names:
                k += 1
            name = f"{name}#{k}"
        self._names.add(name)
        t = Task(self, name, len(self.tasks), fn, args, kwargs, group)
        if self.policy["kind"] == "pct":
            t.prio = 1 + self.tape.choice(1000, "prio")
        self.tasks.append(t)
        th = threading.Thread(target=self._task_main, args=(t,),
                              name=f"sim:{name}", daemon=True)
        t.thread = th
        th.start()
        self.bump()
        return t

    def _task_main(self, t):
        t.sem.acquire()
        lp = self.line_preempt if t.name != "main" else None
        if lp is not None and lp.only is not None and lp.only not in t.name:
            lp = None
        try:
            if self.aborted is None:
                self.current = t
                if lp is not None:
                    lp.install()
                t.result = t.fn(*t.args, **t.kwargs)
        except SimAbort:
            pass
        except BaseException as e:   # noqa - stored, re-raised by whoever joins
            t.exc = e
        finally:
            if lp is not None:
                lp.uninstall()
            t.state = DONE
            self.bump()
            if t.on_exit is not None:
                try:
                    t.on_exit(t)
                except BaseException as e:  # noqa
                    if t.exc is None:
                        t.exc = e
            if self.log_schedule:
                self.event("exit", t.name,
                           type(t.exc).__name__ if t.exc else "ok")
            self._handoff(t)

    # ------------------------------------------------------------ scheduling
    def _runnable(self):
        out = []
        for t in self.tasks:
            if t.state == READY:
                out.append(t)
            elif t.state == BLOCKED:
                if t.wake is not None:
                    if self.now >= t.wake:
                        out.append(t)
                elif t.pred is not None and t.pred():
                    out.append(t)
        return out

    def _fire_timers(self):
        fired = False
        while self.timers and self.timers[0][0] <= self.now:
            _, _, cb = heapq.heappop(self.timers)
            cb()
            fired = True
        return fired

    def _next_time(self):
        nt = self.timers[0][0] if self.timers else None
        for t in self.tasks:
            if t.state == BLOCKED and t.wake is not None:
                if nt is None or t.wake < nt:
                    nt = t.wake
        return nt

    def _choose(self, cur):
        """Pick the next task to run. Returns None when everything is done,
        raises Deadlock when tasks remain but none can ever run."""
        while True:
            self._fire_timers()
            runnable = self._runnable()
            if runnable:
                break
            if all(t.state == DONE for t in self.tasks):
                return None
            nt = self._next_time()
            if nt is None:
                raise Deadlock("no runnable task, no timer: " + ", ".join(
                    f"{t.name}:{t.state}" for t in self.tasks
                    if t.state != DONE))
            self.now = max(self.now, nt)
            self.stats["clock_jumps"] += 1
        n = len(runnable)
        if n > self.stats["max_runnable"]:
            self.stats["max_runnable"] = n
        if n == 1:
            return runnable[0]
        self.stats["decisions_gt1"] += 1
        kind = self.policy["kind"]
        if kind == "target":
            # completion-order targeting: the engine ranks the tasks (lowest
            # first, ties by creation); no draw from the tape is needed
            rank = self.policy["rank"]
            return min(runnable, key=lambda t: (rank(t), t.idx))
        if kind == "pct":
            pts = self.policy.get("points", ())
            if self.steps in pts and cur is not None:
                cur.prio = -self.steps   # drop below everything
            return max(runnable, key=lambda t: (t.prio, -t.idx))
        # random / sticky: current task first so that choice 0 == keep running
        if cur in runnable:
            order = [cur] + [t for t in runnable if t is not cur]
            bias = self.policy.get("bias", 1)
            c = self.tape.choice(bias + n - 1, "sched")
            return order[0] if c < bias else order[c - bias + 1]
        target = self.policy.get("prefer")
        if target is not None:
            p = target(runnable)
            if p is not None:
                return p
        return runnable[self.tape.choice(n, "sched")]

    def _handoff(self, cur):
        """Called by a finishing task (or one that aborts the run)."""
        try:
            nxt = None if self.aborted is not None else self._choose(None)
        except Deadlock as e:
            self._abort(e)
            nxt = None
        if self.aborted is not None:
            self._release_all()
            return
        if nxt is None:
            self._done_evt.set()
            return
        self._run(nxt)

    def _run(self, t):
        t.state = READY
        t.pred = None
        t.wake = None
        self.current = t
        self.stats["switches"] += 1
        t.sem.release()

    def _abort(self, reason):
        if self.aborted is None:
            self.aborted = reason

    def _release_all(self):
        for t in self.tasks:
            if t.state != DONE:
                t.sem.release()
        self._done_evt.set()

    def _check_abort(self):
        if self.aborted is not None:
            raise SimAbort()

    def _switch(self, cur, label):
        """cur has set its own state (READY or BLOCKED); give the baton away."""
        self.steps += 1
        cur.steps += 1
        if self.steps > self.step_cap:
            self._abort(StepCap(f"step cap {self.step_cap} at {label}"))
            self._release_all()
            raise SimAbort()
        try:
            nxt = self._choose(cur)
        except Deadlock as e:
            self._abort(e)
            self._release_all()
            raise SimAbort()
        if nxt is None:      # cannot happen: cur is not done
            raise HarnessError("scheduler found no task although one is live")
        if self.log_schedule:
            self.event("s", self.steps, cur.name, label, "->", nxt.name)
        if nxt is cur:
            cur.state = READY
            cur.pred = None
            cur.wake = None
            return
        self._run(nxt)
        cur.sem.acquire()
        self._check_abort()

    # ------------------------------------------------------------ primitives
    def me(self):
        return self.current

    def yield_(self, label=""):
        self._check_abort()
        cur = self.current
        cur.state = READY
        self._switch(cur, label)

    def block_until(self, pred, label=""):
        self._check_abort()
        if pred():
            # still a scheduling point, but we stay runnable
            return self.yield_(label)
        cur = self.current
        cur.state = BLOCKED
        cur.pred = pred
        cur.wake = None
        self._switch(cur, label)

    def sleep(self, dt, label="sleep"):
        self._check_abort()
        cur = self.current
        if dt <= 0:
            return self.yield_(label)
        cur.state = BLOCKED
        cur.pred = None
        cur.wake = self.now + dt
        self._switch(cur, label)

    def after(self, dt, cb):
        self._tseq += 1
        heapq.heappush(self.timers, (self.now + dt, self._tseq, cb))

    def poll_point(self, site):
        """Yield point for a non-blocking poll.  If this task polled the same
        site at the same world version before, re-running could only repeat
        itself: park until the world changes (unless nothing else can run)."""
        self._check_abort()
        cur = self.current
        v = self.version
        if cur.polls.get(site) == v:
            def others():
                return any(t is not cur and t.state != DONE
                           for t in self.tasks) or bool(self.timers)
            if others():
                self.stats["parked_polls"] += 1
                cur.state = BLOCKED
                cur.wake = None
                # wake when the world changed - or when nothing is left that
                # could change it (then the poll simply repeats itself)
                cur.pred = lambda: self.version != v or not others()
                self._switch(cur, "park:" + site)
                cur.polls[site] = self.version
                return
        cur.polls[site] = v
        cur.state = READY
        self._switch(cur, site)

    def join(self, task, label="join"):
        self.block_until(lambda: task.state == DONE, label)

    # ----------------------------------------------------------------- drive
    def run(self, main_fn, *args, **kwargs):
        """Run main_fn as task 'main' until every task has finished.
        Returns main's result; raises main's exception, Deadlock or StepCap."""
        if self.policy["kind"] == "pct" and "points" not in self.policy:
            d = self.policy.get("d", 2)
            horizon = self.policy.get("horizon", 400)
            self.policy["points"] = frozenset(
                1 + self.tape.choice(horizon, "pctpoint") for _ in range(d))
        main = self.spawn("main", main_fn, *args, **kwargs)
        self._run(main)
        try:
            finished = self._done_evt.wait(self.wall_timeout)
        finally:
            if self.line_preempt is not None:
                self.line_preempt.close()
        if not finished:
            self._abort(HarnessError("wall-clock timeout inside simulated run"))
            self._release_all()
            raise HarnessError(
                f"run did not finish within {self.wall_timeout}s wall; tasks: "
                + ", ".join(f"{t.name}:{t.state}" for t in self.tasks))
        for t in self.tasks:
            t.thread.join(10.0)
            if t.thread.is_alive():
                raise HarnessError(f"task thread {t.name} leaked")
        if isinstance(self.aborted, HarnessError):
            raise self.aborted
        if self.aborted is not None:
            raise self.aborted
        if main.exc is not None:
            raise main.exc
        return main.result


def make_policy(tape, allow=("random", "sticky", "pct")):
    """Draw a scheduler policy for a run (swarm style)."""
    kind = tape.pick(list(allow), "policy")
    if kind == "random":
        return {"kind": "random", "bias": 1}
    if kind == "sticky":
        return {"kind": "random", "bias": 2 + tape.choice(6, "bias")}
    return {"kind": "pct", "d": 1 + tape.choice(3, "pct_d"),
            "horizon": [50, 200, 800][tape.choice(3, "pct_h")]}


class SimClock:
    """Stands in for the `time` module inside typhon.utils.timeutils."""

    def __init__(self, sim, base=1_500_000_000.0):
        self.sim = sim
        self.base = base
        self.offset = 0.0

    def time(self):
        return self.base + self.sim.now + self.offset

    def sleep(self, dt):
        self.sim.sleep(dt, "time.sleep")

    def jump(self, dt):
        self.offset += dt

    def __getattr__(self, name):
        import time as _t
        if name in ("perf_counter", "monotonic"):
            return self.time
        return getattr(_t, name)
