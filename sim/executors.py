"""Fakes for concurrent.futures.ThreadPoolExecutor / ProcessPoolExecutor.

Model (stated in DESIGN.md 2.3): at most `max_workers` work items execute at a
time, items start in submission (FIFO) order, each item is a simulated task;
`map` is inherited from concurrent.futures.Executor (so it submits everything,
yields results in submission order and cancels what has not started when the
caller abandons the iterator); `__exit__` = shutdown(wait=True).
The process pool additionally pickles callable+arguments per item and each
result, so nothing is shared with the submitting side.
"""
import pickle
from concurrent.futures import Executor, CancelledError

PENDING, RUNNING, FINISHED, CANCELLED = "pending", "running", "finished", "cancelled"


class SimFuture:
    def __init__(self, pool, seq):
        self.pool = pool
        self.sim = pool.sim
        self.seq = seq
        self.state = PENDING
        self._result = None
        self._exc = None
        self.consumed = False
        self.task = None

    def done(self):
        return self.state in (FINISHED, CANCELLED)

    def running(self):
        return self.state == RUNNING

    def cancelled(self):
        return self.state == CANCELLED

    def cancel(self):
        if self.state == PENDING:
            self.state = CANCELLED
            self.sim.bump()
            self.pool.stats["cancelled"] += 1
            return True
        return self.state == CANCELLED

    def result(self, timeout=None):
        pool = self.pool
        self.sim.block_until(self.done, f"{pool.label}.result[{self.seq}]")
        if not self.consumed:
            self.consumed = True
            pool.consumed += 1
        if self.state == CANCELLED:
            raise CancelledError()
        if self._exc is not None:
            raise self._exc
        return self._result

    def exception(self, timeout=None):
        self.sim.block_until(self.done, f"{self.pool.label}.exception[{self.seq}]")
        return self._exc


class SimPoolBase(Executor):
    kind = "pool"
    # set by the engine for the duration of a run
    sim = None
    registry = None          # list collecting every pool created in the run

    def __init__(self, max_workers=None, **kwargs):
        cls = type(self)
        if cls.sim is None:
            raise RuntimeError("simulated pool used outside a simulation")
        self.sim = cls.sim
        self.max_workers = max_workers if max_workers else self.default_workers
        self.raw_max_workers = max_workers
        self.futures = []
        self.running = 0
        self.next_start = 0      # FIFO start pointer
        self.consumed = 0
        self.is_shutdown = False
        self.stats = {"submitted": 0, "cancelled": 0, "max_inflight": 0,
                      "max_running": 0, "completion_order": []}
        if cls.registry is not None:
            cls.registry.append(self)
        self.label = f"{self.kind}{len(cls.registry) if cls.registry is not None else ''}"
        me = self.sim.me()
        self.creator = me.name if me is not None else None
        self.sim.event("pool", self.label, "workers", self.max_workers)

    default_workers = 4

    # -- Executor interface -----------------------------------------------
    def submit(self, fn, /, *args, **kwargs):
        if self.is_shutdown:
            raise RuntimeError("cannot schedule new futures after shutdown")
        fut = SimFuture(self, len(self.futures))
        self.futures.append(fut)
        self.stats["submitted"] += 1
        inflight = self.stats["submitted"] - self.consumed
        if inflight > self.stats["max_inflight"]:
            self.stats["max_inflight"] = inflight
        payload = self._ship(fn, args, kwargs, fut)
        fut.task = self.sim.spawn(
            f"{self.label}.w{fut.seq}", self._work, fut, payload)
        fut.task.state = "blocked"
        fut.task.pred = lambda f=fut: self._may_start(f)
        self.sim.bump()
        self.sim.yield_(f"{self.label}.submit[{fut.seq}]")
        return fut

    def shutdown(self, wait=True, *, cancel_futures=False):
        self.is_shutdown = True
        if cancel_futures:
            for f in self.futures:
                f.cancel()
        if wait:
            self.sim.block_until(
                lambda: all(f.done() for f in self.futures),
                f"{self.label}.shutdown")

    # -- internals -----------------------------------------------------------
    def _may_start(self, fut):
        if fut.state == CANCELLED:
            return True
        # skip cancelled items at the head of the queue
        while self.next_start < len(self.futures) and \
                self.futures[self.next_start].state == CANCELLED:
            self.next_start += 1
        return self.next_start == fut.seq and self.running < self.max_workers

    def _ship(self, fn, args, kwargs, fut):
        return (fn, args, kwargs)

    def _unship(self, payload):
        return payload

    def _ship_result(self, value):
        return value

    def _work(self, fut, payload):
        sim = self.sim
        if fut.state == CANCELLED:
            return
        fut.state = RUNNING
        self.next_start = fut.seq + 1
        self.running += 1
        if self.running > self.stats["max_running"]:
            self.stats["max_running"] = self.running
        sim.bump()
        sim.event("start", self.label, fut.seq)
        try:
            if isinstance(payload, BaseException):
                raise payload
            fn, args, kwargs = self._unship(payload)
            sim.yield_(f"{self.label}.begin[{fut.seq}]")
            value = fn(*args, **kwargs)
            fut._result = self._ship_result(value)
        except Exception as e:   # noqa: what a real pool stores in the future
            fut._exc = e
        finally:
            if sim.aborted is None:
                self.running -= 1
                fut.state = FINISHED
                self.stats["completion_order"].append(fut.seq)
                sim.bump()
                sim.event("finish", self.label, fut.seq,
                          "exc" if fut._exc is not None else "ok")


class SimThreadPool(SimPoolBase):
    kind = "tpool"
    default_workers = 5


class SimProcessPool(SimPoolBase):
    """No shared memory: the callable, its arguments and the result cross a
    pickle boundary, as with concurrent.futures.ProcessPoolExecutor."""
    kind = "ppool"
    default_workers = 4

    def _ship(self, fn, args, kwargs, fut):
        try:
            return pickle.dumps((fn, args, kwargs), protocol=pickle.HIGHEST_PROTOCOL)
        except Exception as e:  # noqa: the real pool reports this via the future
            return e

    def _unship(self, payload):
        return pickle.loads(payload)

    def _ship_result(self, value):
        return pickle.loads(pickle.dumps(value, protocol=pickle.HIGHEST_PROTOCOL))


def sim_as_completed(fs, timeout=None):
    """Stand-in for concurrent.futures.as_completed over SimFutures: yields the
    futures in the order in which the simulated tasks finish."""
    pending = list(fs)
    order = []
    while pending:
        sim = pending[0].sim
        sim.block_until(lambda: any(f.done() for f in pending), "as_completed")
        done = [f for f in pending if f.done()]
        # several may have finished since the last look: completion order
        done.sort(key=lambda f: f.pool.stats["completion_order"].index(f.seq)
                  if f.seq in f.pool.stats["completion_order"] else -1)
        for f in done:
            pending.remove(f)
            order.append(f)
            yield f


def sim_wait(fs, timeout=None, return_when="ALL_COMPLETED"):
    fs = list(fs)
    if not fs:
        return set(), set()
    sim = fs[0].sim
    if return_when == "FIRST_COMPLETED":
        sim.block_until(lambda: any(f.done() for f in fs), "wait")
    else:
        sim.block_until(lambda: all(f.done() for f in fs), "wait")
    return {f for f in fs if f.done()}, {f for f in fs if not f.done()}
