"""Fakes for multiprocessing.Process / multiprocessing.Queue (fork start method).

Model (DESIGN.md 2.3 / C05):
* Process.start(): the child is a simulated task working on a deep copy of
  target/args/kwargs (fork = copy of memory); queues are shared.
* Queue(maxsize): put() takes a slot (blocks when maxsize items are un-got),
  the item is pickled at once and becomes *visible* to empty()/get() after a
  tape-chosen delay (feeder thread -> pipe), in per-producer FIFO order.
  empty() looks at visible items only; qsize() counts un-got puts.
* A child is not reported dead before everything it put is visible
  (the real child joins its feeder threads before exiting).
* An exception escaping the target ends the child with exitcode 1.
"""
import copy
import pickle


class SimQueue:
    sim = None
    registry = None
    delay_fn = None       # callable(queue, producer_task) -> virtual seconds

    def __init__(self, maxsize=0, **kw):
        cls = type(self)
        if cls.sim is None:
            raise RuntimeError("simulated queue used outside a simulation")
        self.sim = cls.sim
        self.maxsize = maxsize
        self.pipe = []          # visible items (pickled), FIFO
        self.unfetched = 0      # puts not yet got (slots in use)
        self.pending = {}       # producer task -> items put but not visible
        self._last_visible = {}  # producer task -> virtual time of last item
        self.stats = {"put": 0, "got": 0, "blocked_put": 0, "dropped": 0,
                      "max_delay": 0.0, "delayed": 0}
        if cls.registry is not None:
            cls.registry.append(self)
        self.label = f"q{len(cls.registry) if cls.registry is not None else ''}"

    def __deepcopy__(self, memo):
        return self            # shared between parent and children

    def __reduce__(self):
        raise TypeError("queues are only shared through inheritance")

    def put(self, obj, block=True, timeout=None):
        sim = self.sim
        if self.maxsize > 0 and self.unfetched >= self.maxsize:
            self.stats["blocked_put"] += 1
            sim.block_until(lambda: self.unfetched < self.maxsize,
                            f"{self.label}.put(full)")
        else:
            sim.yield_(f"{self.label}.put")
        self.unfetched += 1
        self.stats["put"] += 1
        me = sim.me()
        try:
            data = pickle.dumps(obj, protocol=pickle.HIGHEST_PROTOCOL)
        except Exception:   # noqa: the feeder thread drops un-picklable items
            self.unfetched -= 1
            self.stats["dropped"] += 1
            sim.event(self.label, "drop-unpicklable", me.name)
            sim.bump()
            return
        delay = type(self).delay_fn(self, me) if type(self).delay_fn else 0.0
        t_vis = max(sim.now + delay, self._last_visible.get(me, 0.0))
        self._last_visible[me] = t_vis
        self.pending[me] = self.pending.get(me, 0) + 1
        if delay > 0:
            self.stats["delayed"] += 1
            self.stats["max_delay"] = max(self.stats["max_delay"], delay)
        sim.event(self.label, "put", me.name)

        def deliver(data=data, me=me):
            self.pipe.append(data)
            self.pending[me] -= 1
            sim.bump()
        if t_vis <= sim.now:
            deliver()
        else:
            sim.after(t_vis - sim.now, deliver)
        sim.bump()

    def empty(self):
        self.sim.poll_point(f"{self.label}.empty")
        return not self.pipe

    def qsize(self):
        return self.unfetched

    def get(self, block=True, timeout=None):
        sim = self.sim
        sim.block_until(lambda: bool(self.pipe), f"{self.label}.get")
        data = self.pipe.pop(0)
        self.unfetched -= 1
        self.stats["got"] += 1
        sim.bump()
        sim.event(self.label, "get", sim.me().name)
        return pickle.loads(data)

    def get_nowait(self):
        import queue
        self.sim.yield_(f"{self.label}.get_nowait")
        if not self.pipe:
            raise queue.Empty
        data = self.pipe.pop(0)
        self.unfetched -= 1
        self.stats["got"] += 1
        self.sim.bump()
        return pickle.loads(data)

    def close(self):
        pass

    def join_thread(self):
        pass

    def cancel_join_thread(self):
        pass


class SimProcess:
    sim = None
    registry = None
    queues = None     # SimQueue.registry, to wait for feeder flush at exit

    def __init__(self, group=None, target=None, name=None, args=(), kwargs=None,
                 daemon=None):
        cls = type(self)
        if cls.sim is None:
            raise RuntimeError("simulated process used outside a simulation")
        self.sim = cls.sim
        self.target = target
        self.args = args
        self.kwargs = kwargs or {}
        self.daemon = daemon
        self.task = None
        self.exitcode = None
        self.error = None
        self.dead = False
        if cls.registry is not None:
            cls.registry.append(self)
        self.name = name or f"proc{len(cls.registry) if cls.registry is not None else ''}"

    def start(self):
        sim = self.sim
        # fork: the child sees a copy of the parent's memory
        target, args, kwargs = copy.deepcopy(
            (self.target, self.args, self.kwargs))
        self.task = sim.spawn(self.name, self._main, target, args, kwargs,
                              group=self.name)
        sim.event("proc-start", self.name)
        sim.yield_(f"{self.name}.start")

    def _main(self, target, args, kwargs):
        sim = self.sim
        me = sim.me()
        try:
            target(*args, **kwargs)
            self.exitcode = 0
        except Exception as e:   # noqa: child prints the traceback, exit code 1
            self.error = e
            self.exitcode = 1
        # join the feeder threads: everything this child put must be in the pipe
        queues = type(self).queues or []
        sim.block_until(
            lambda: all(q.pending.get(me, 0) == 0 for q in queues),
            f"{self.name}.flush")
        self.dead = True
        sim.bump()
        sim.event("proc-exit", self.name, self.exitcode)

    def is_alive(self):
        self.sim.poll_point(f"{self.name}.is_alive")
        return self.task is not None and not self.dead

    def join(self, timeout=None):
        if self.task is None:
            raise AssertionError("can only join a started process")
        self.sim.block_until(lambda: self.dead, f"{self.name}.join")

    def terminate(self):
        pass
