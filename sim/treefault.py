"""Allocation failures at the spatial-tree seam.

typhon.geographical builds a scikit-learn BallTree / KDTree and asks it for
neighbours; both steps allocate memory proportional to the data and are the
places where a MemoryError really occurs.  `faulty(real, plan)` returns a
class with the interface typhon uses (constructor, query_radius, attribute
pass-through) that raises MemoryError at the k-th construction or the k-th
query counted over the run; everything else is delegated to the real tree.
The plan is fixed from the tape before the run starts.
"""


class TreeFaultPlan:
    def __init__(self, build_fail_at=None, query_fail_at=None):
        self.build_fail_at = build_fail_at
        self.query_fail_at = query_fail_at
        self.builds = 0
        self.queries = 0
        self.fired = {}
        self.last_fired = None      # "build" / "query" when the most recent call failed

    def _fire(self, kind):
        self.fired[kind] = self.fired.get(kind, 0) + 1
        self.last_fired = kind
        raise MemoryError(f"injected allocation failure in tree {kind}")

    def take_fired(self):
        k, self.last_fired = self.last_fired, None
        return k


def faulty(real, plan):
    class Tree:
        def __init__(self, points, **kw):
            plan.builds += 1
            if plan.builds == plan.build_fail_at:
                plan._fire("alloc_fail_in_tree_build")
            self._t = real(points, **kw)

        def query_radius(self, *a, **k):
            plan.queries += 1
            if plan.queries == plan.query_fail_at:
                plan._fire("alloc_fail_in_tree_query")
            return self._t.query_radius(*a, **k)

        def __getattr__(self, name):
            return getattr(self.__dict__["_t"], name)

    Tree.__name__ = real.__name__
    return Tree
