"""Allocation failures at the spatial-tree seam.

typhon.geographical builds a scikit-learn BallTree / KDTree and asks it for
neighbours; both steps allocate memory proportional to the data and are the
places where a MemoryError really occurs.  `faulty(real, plan)` returns a
subclass of the real tree class (module level, so that an index holding such a
tree can still be pickled and deep-copied) that raises MemoryError at the k-th
construction or the k-th radius query counted over the run; everything else is
the real tree.  The plan is fixed from the tape before the run starts.
"""
from sklearn.neighbors import BallTree, KDTree


class TreeFaultPlan:
    def __init__(self, build_fail_at=None, query_fail_at=None):
        self.build_fail_at = build_fail_at
        self.query_fail_at = query_fail_at
        self.builds = 0
        self.queries = 0
        self.fired = {}
        self.last_fired = None      # set when the most recent call failed

    def _fire(self, kind):
        self.fired[kind] = self.fired.get(kind, 0) + 1
        self.last_fired = kind
        raise MemoryError(f"injected allocation failure in tree {kind}")

    def take_fired(self):
        k, self.last_fired = self.last_fired, None
        return k


PLAN = [TreeFaultPlan()]      # the plan of the current run


def _count_build():
    plan = PLAN[0]
    plan.builds += 1
    if plan.builds == plan.build_fail_at:
        plan._fire("alloc_fail_in_tree_build")


def _count_query():
    plan = PLAN[0]
    plan.queries += 1
    if plan.queries == plan.query_fail_at:
        plan._fire("alloc_fail_in_tree_query")


class FaultyBallTree(BallTree):
    def __init__(self, *a, **kw):
        _count_build()
        super().__init__(*a, **kw)

    def query_radius(self, *a, **kw):
        _count_query()
        return super().query_radius(*a, **kw)


class FaultyKDTree(KDTree):
    def __init__(self, *a, **kw):
        _count_build()
        super().__init__(*a, **kw)

    def query_radius(self, *a, **kw):
        _count_query()
        return super().query_radius(*a, **kw)


def faulty(real, plan):
    PLAN[0] = plan
    return FaultyKDTree if real.__name__ in ("KDTree", "FaultyKDTree") else FaultyBallTree
