"""LocalFileSystem with a scheduling point in front of every call typhon makes.

The calls themselves are real; the hook lets the simulator interleave
check-then-act sequences on the directory tree (isdir -> makedirs, isfile ->
open, ...) of concurrent tasks.  `HOOK[0]` is set by the engine for the duration
of a run (a callable taking a label) and is None otherwise.
"""
from fsspec.implementations.local import LocalFileSystem

HOOK = [None]


def _yield(label):
    h = HOOK[0]
    if h is not None:
        h(label)


class SimLocalFS(LocalFileSystem):
    cachable = False

    def isdir(self, path):
        _yield("fs.isdir")
        return super().isdir(path)

    def isfile(self, path):
        _yield("fs.isfile")
        return super().isfile(path)

    def exists(self, path, **kw):
        _yield("fs.exists")
        return super().exists(path, **kw)

    def makedirs(self, path, exist_ok=False):
        _yield("fs.makedirs")
        return super().makedirs(path, exist_ok=exist_ok)

    def mkdir(self, path, create_parents=True, **kw):
        _yield("fs.mkdir")
        return super().mkdir(path, create_parents=create_parents, **kw)

    def copy(self, path1, path2, **kw):
        _yield("fs.copy")
        return super().copy(path1, path2, **kw)

    def move(self, path1, path2, **kw):
        _yield("fs.move")
        return super().move(path1, path2, **kw)

    def mv(self, path1, path2, **kw):
        _yield("fs.mv")
        return super().mv(path1, path2, **kw)
