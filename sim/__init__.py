"""Deterministic-simulation kernel for the typhon verification checks.

Nothing in here imports typhon; the property engines (props/*.py) patch typhon's
module-level seams with the fakes defined here for the duration of one run.
"""
ENGINE_VERSION = 1

import hashlib as _hashlib
import json as _json


def digest_of(obj):
    """Stable short digest of a JSON-able description."""
    return _hashlib.sha256(
        _json.dumps(obj, sort_keys=True, default=str).encode()).hexdigest()[:16]
