"""Helpers for patching typhon's module-level seams for the duration of a run."""
import contextlib
import os
import shutil
import sys

_MISSING = object()


@contextlib.contextmanager
def patched(*triples):
    """patched((module, name, value), ...) - restores on exit."""
    saved = []
    try:
        for mod, name, value in triples:
            saved.append((mod, name, mod.__dict__.get(name, _MISSING)))
            setattr(mod, name, value)
        yield
    finally:
        for mod, name, old in reversed(saved):
            if old is _MISSING:
                try:
                    delattr(mod, name)
                except AttributeError:
                    pass
            else:
                setattr(mod, name, old)


class NoGC:
    """Performance stub for `gc` inside typhon (collect() costs 50-100 ms)."""
    @staticmethod
    def collect(*a, **k):
        return 0


def import_typhon():
    repo = os.environ.get("VERIF_REPO", "/repo")
    if repo not in sys.path:
        sys.path.insert(0, repo)
    import warnings
    with warnings.catch_warnings():
        warnings.simplefilter("ignore")
        import typhon  # noqa
        import typhon.files, typhon.collocations  # noqa
    got = os.path.dirname(os.path.dirname(os.path.abspath(typhon.__file__)))
    if os.path.realpath(got) != os.path.realpath(repo):
        raise RuntimeError(f"typhon imported from {got}, expected {repo}")
    return typhon


_counter = [0]


def fresh_dir(root, prefix):
    _counter[0] += 1
    d = os.path.join(root, f"{prefix}-{os.getpid():08d}-{_counter[0] % 1000000:06d}")
    if os.path.exists(d):
        shutil.rmtree(d, ignore_errors=True)
    os.makedirs(d)
    return d
