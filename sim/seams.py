"""Helpers for patching typhon's module-level seams for the duration of a run."""
import contextlib
import os
import shutil
import sys

_MISSING = object()


@contextlib.contextmanager
def patched(*triples):
    """patched((module, name, value), ...) - restores on exit."""
    saved = []
    try:
        for mod, name, value in triples:
            saved.append((mod, name, mod.__dict__.get(name, _MISSING)))
            setattr(mod, name, value)
        yield
    finally:
        for mod, name, old in reversed(saved):
            if old is _MISSING:
                try:
                    delattr(mod, name)
                except AttributeError:
                    pass
            else:
                setattr(mod, name, old)


class NoGC:
    """Performance stub for `gc` inside typhon (collect() costs 50-100 ms)."""
    @staticmethod
    def collect(*a, **k):
        return 0


def import_typhon():
    repo = os.environ.get("VERIF_REPO", "/repo")
    if repo not in sys.path:
        sys.path.insert(0, repo)
    import warnings
    with warnings.catch_warnings():
        warnings.simplefilter("ignore")
        import typhon  # noqa
        import typhon.files, typhon.collocations  # noqa
    got = os.path.dirname(os.path.dirname(os.path.abspath(typhon.__file__)))
    if os.path.realpath(got) != os.path.realpath(repo):
        raise RuntimeError(f"typhon imported from {got}, expected {repo}")
    return typhon


_counter = [0]


def fresh_dir(root, prefix):
    _counter[0] += 1
    d = os.path.join(root, f"{prefix}-{os.getpid():08d}-{_counter[0] % 1000000:06d}")
    if os.path.exists(d):
        shutil.rmtree(d, ignore_errors=True)
    os.makedirs(d)
    return d


class ProcessState:
    """Import-time snapshot of the module- and class-level state of the code
    under test.  `restore()` puts it back at the start of every simulated run:
    a run models a fresh interpreter, so in-memory state that one run leaves
    behind in module globals or class attributes (caches, 'last used' slots)
    must not leak into the next run of the same worker process."""

    def __init__(self, *objs):
        import copy
        self._copy = copy
        self.objs = objs
        self.saved = [self._snap(o) for o in objs]

    def _snap(self, o):
        out = {}
        for k, v in list(vars(o).items()):
            if k.startswith("__") and k.endswith("__"):
                continue
            if isinstance(v, (dict, list, set)):
                try:
                    v = self._copy.deepcopy(v)
                except Exception:  # noqa: keep the reference if it cannot be copied
                    pass
            out[k] = v
        return out

    def restore(self):
        for o, saved in zip(self.objs, self.saved):
            cur = vars(o)
            # memoised functions (functools.lru_cache / cache) start empty
            for v in list(cur.values()):
                f = getattr(v, "__func__", v)
                clear = getattr(f, "cache_clear", None)
                if callable(clear):
                    try:
                        clear()
                    except Exception:  # noqa
                        pass
            for k in [k for k in cur if k not in saved
                      and not (k.startswith("__") and k.endswith("__"))]:
                try:
                    delattr(o, k)
                except (AttributeError, TypeError):
                    pass
            for k, v in saved.items():
                if cur.get(k, _MISSING) is not v:
                    if isinstance(v, (dict, list, set)):
                        v = self._copy.deepcopy(v)
                    try:
                        setattr(o, k, v)
                    except (AttributeError, TypeError):
                        pass


def typhon_state():
    """ProcessState over the typhon modules and classes the checks exercise."""
    import typhon.files.fileset as fsmod
    import typhon.files.utils as umod
    import typhon.files.handlers.common as hmod
    import typhon.collocations.collocator as cmod
    import typhon.collocations.common as ccmod
    import typhon.geographical as gmod
    import typhon.trees as tmod
    import typhon.topography as topo
    return ProcessState(
        fsmod, fsmod.FileSet, umod, hmod, hmod.FileInfo, hmod.FileHandler,
        hmod.NetCDF4, hmod.CSV, cmod, cmod.Collocator, ccmod, ccmod.Collocations,
        gmod, gmod.GeoIndex, tmod, tmod.IntervalTree, topo, topo.SRTM30)


class _DetNames:
    """Stands in for tempfile's random name sequence: temporary names are one
    more source of randomness a run must not depend on."""

    def __init__(self):
        self.n = 0

    def __iter__(self):
        return self

    def __next__(self):
        self.n += 1
        return f"sim{self.n:06d}"


def deterministic_tempnames():
    import tempfile
    tempfile._name_sequence = _DetNames()
