"""The choice tape: the single source of every decision taken in a simulated run.

generate mode : values come from random.Random(run_seed) and are recorded.
replay  mode  : values come from a recorded list; past its end every choice is 0.
                strict=True  -> a label/range mismatch is a Divergence (harness error)
                strict=False -> values are reduced modulo n (used while minimising)

All generators are written so that 0 is the simplest choice.
"""
import random


class Divergence(Exception):
    """A strict replay asked for a choice the recording does not contain."""


class Tape:
    __slots__ = ("rng", "values", "labels", "ranges", "pos", "replay", "strict",
                 "seed", "overrun", "_rlabels")

    def __init__(self, seed=None, replay=None, labels=None, strict=False):
        self.seed = seed
        self.rng = random.Random(seed) if replay is None else None
        self.replay = list(replay) if replay is not None else None
        self.strict = strict
        self.values = []
        self.labels = []
        self.ranges = []
        self.pos = 0
        self.overrun = 0
        self._rlabels = labels

    # -- primitive ---------------------------------------------------------
    def choice(self, n, label=""):
        """Return an int in [0, n). n <= 1 consumes nothing."""
        if n <= 1:
            return 0
        if self.replay is None:
            v = self.rng.randrange(n)
        else:
            if self.pos < len(self.replay):
                v = self.replay[self.pos]
                if self.strict:
                    rl = self._rlabels
                    if v >= n or (rl is not None and self.pos < len(rl)
                                  and rl[self.pos] != label):
                        raise Divergence(
                            f"pos {self.pos}: recorded {v}"
                            f"/{rl[self.pos] if rl else '?'} but run asks "
                            f"[0,{n})/{label}")
                v %= n
            else:
                if self.strict and self.replay:
                    # strict replays are produced by re-recording, so running
                    # past the end means the run differs from the recording
                    raise Divergence(f"tape exhausted at pos {self.pos} ({label})")
                v = 0
                self.overrun += 1
        self.pos += 1
        self.values.append(v)
        self.labels.append(label)
        self.ranges.append(n)
        return v

    # -- conveniences ------------------------------------------------------
    def flag(self, label="", num=1, den=2):
        """True with probability num/den; 0 (=False) is the simple choice."""
        return self.choice(den, label) >= den - num

    def pick(self, seq, label=""):
        return seq[self.choice(len(seq), label)]

    def count(self, lo, hi, label="", p_more=(2, 3)):
        """lo + number of successful 'one more?' draws, capped at hi.
        Encoded as repeated bits so that deleting tape entries shortens lists."""
        n = lo
        num, den = p_more
        while n < hi and self.flag(label + "+", num, den):
            n += 1
        return n

    def int_(self, lo, hi, label=""):
        return lo + self.choice(hi - lo + 1, label)

    def perm(self, n, label=""):
        """Permutation by successive selection; all-zero tape = identity."""
        items = list(range(n))
        out = []
        while items:
            out.append(items.pop(self.choice(len(items), label)))
        return out

    def subset(self, seq, label="", num=1, den=3):
        return [x for x in seq if self.flag(label, num, den)]

    def recorded(self):
        return list(self.values), list(self.labels)
